#!/venv/bin/python
"""Generate /verif/MANIFEST.json from the table below and validate it against the schema."""
import json
import os
import sys

HERE = os.path.dirname(os.path.dirname(os.path.abspath(__file__)))

# id -> (engine, level category, technique, level text, level note, design ref)
PM = ("Hypothesis-generated contract programs (IR rendered to a real module) x all truth assignments; oracle = "
      "reference interpreter transcribed from the property statements; collect-then-minimise failure buckets")
TRUST = ("Trusted: CPython, Hypothesis, the ~600-line reference interpreter vf/progmodel/ref.py (its own errors exit 2). "
         "Conditions/captures/factories/bodies of generated programs only log and answer from the truth table. ")

CHECKS = {
    "C01": ("progmodel", "exploration", PM + "; projection: body entered iff DNF(truth), no capture/post on rejection",
            "Generated callables of every kind (function, instance/static/class method, property accessors, __init__, "
            "__new__, sync/async) with stacks of 0..4 own and inherited preconditions are called under ALL 2^n truth "
            "assignments (n<=6 quick, <=9 thorough; sampled beyond); the body must run iff the reference DNF holds. "
            "Search over programs, exhaustive over assignments per program; not a proof.",
            TRUST + "Which falsy condition's error surfaces is left to C16.", "4/C01, 3.1"),
    "C02": ("progmodel", "exploration", PM + "; projection: postcondition events with result/argument/OLD identities, "
            "caller's object/exception identity",
            "Generated callables with stacks of own/inherited postconditions and bodies returning falsy/mutable/fresh "
            "objects or raising Exception/BaseException kinds, under all truth assignments; compares which "
            "postconditions ran with which objects and what the caller received, by identity.",
            TRUST + "StopIteration from async bodies excluded (PEP 479).", "4/C02, 3.1"),
    "C03": ("progmodel", "exploration", "Hypothesis-generated class hierarchies x operation HISTORIES (stateful sequences "
            "with per-operation truth sequences of the invariants); oracle = reference trace per operation",
            "Classes of four shapes (plain, slots, dataclass, no __init__) under DBC/DBCMeta/plain roots with mixed "
            "check_on invariants at several levels and every member kind; histories of 3..10 operations on 1..2 "
            "instances, invariants falsy before or turning falsy during an operation; every operation's invariant "
            "events and outcome must equal the reference. Search, not proof.",
            TRUST + "Inherited C slots are 'may check' and not probed. Finding D19 (nested __new__) is open and excluded "
                    "by construction.", "4/C03, 3.1"),
    "C04": ("progmodel", "exploration", PM + " over inheritance DAGs (multiple roots, diamonds, gaps); verdict projection",
            "DAGs of 2..6 classes with one member kind, per class {absent, redefined without/with preconditions}, "
            "postconditions, snapshots, invariants, constructor contracts; the member is called on an instance of "
            "every class under all truth assignments; verdict and class-creation errors against the DNF/CNF computed "
            "from the declaration.", TRUST + "Diamond-duplicated snapshots are unspecified and skipped; __call__ avoided "
            "(see DESIGN).", "4/C04, 3.1"),
    "C05": (
        "sigmodel", "exploration",
        "exhaustive enumeration of bounded signatures x call shapes + Hypothesis sampling; differential oracle "
        "(bare function / inspect.Signature.bind), identity comparison",
        "Every signature with <=2 positional-only, <=3 positional-or-keyword, <=2 keyword-only parameters, */** and "
        "every default placement is crossed with every call shape Python accepts (thorough: complete enumeration, "
        "quick: Hypothesis sample); each condition, capture and error factory must receive, by identity, what the "
        "bare body receives. Exhaustive inside the bounds, sampled beyond them; search, not proof.",
        "Trusted: CPython's own argument binding (the bare function is called with the same objects). Variadic "
        "parameter names and reserved names are outside the generated domain.",
        "4/C05, 3.2"),
    "C08": ("progmodel", "exploration", PM + "; projection: capture count/position, tokens seen through OLD; enumerated "
            "definition-time matrix",
            "Generated callables with 0..3 snapshots (own/inherited, named/unnamed) and mutating bodies under all truth "
            "assignments, plus the complete definition-time matrix (duplicate names on a function / in a hierarchy / in "
            "sibling bases, unnamed with 0 or 2 parameters, no postcondition below, OLD.<unknown>) x kind x sync/async.",
            TRUST, "4/C08, 3.1"),
    "C09": ("progmodel", "exploration", "complete enumeration of the error-form x role x kind x sync/async matrix (each "
            "cell violated three times) + " + PM,
            "All 7 error forms x {pre, post, invariant} x all callable kinds x sync/async are executed; type, identity, "
            "args and message (against the twin without `error`) of the raised object and the factory's call "
            "count/arguments are checked; invalid kinds must raise ValueError at decorator creation for all three "
            "decorators; generated programs vary the names factories ask for.", TRUST, "4/C09, 3.1"),
    "C13": ("progmodel", "exploration", "metamorphic: the same generated program rendered with def and async def must "
            "give equal traces; " + PM + " for awaitable flavours",
            "Programs of the C01-C04/C08/C09 families are rendered twice (def / async def) and compared event by "
            "event for all truth assignments; on async callables every condition/capture is drawn from five "
            "awaitable flavours (reference: awaited, result judged); on sync callables coroutine flavours must raise "
            "ValueError before the body.", TRUST + "No real suspension here (C12).", "4/C13, 3.1"),
    "C16": ("progmodel", "exploration", PM + "; the WHOLE event trace (order, at-most-once, first failure) is compared",
            "Stacks, chains and DAGs with several simultaneously falsy contracts at different positions/levels, "
            "invariants + pre + snapshot + post on one member, named and lambda conditions; the complete evaluation "
            "log of every call must equal the reference log under all truth assignments.",
            TRUST + "Re-evaluation of a violated lambda and error construction for a failed alternative group are "
                    "optional events.", "4/C16, 3.1"),
    "C18": ("progmodel", "exploration", PM + "; static comparison of introspected lists with the reference + manual "
            "evaluation of the lists as tests/test_for_integrators.py does + patched registration hook",
            "For generated functions and DAGs the ids in find_checker(...).__preconditions__/__postconditions__/"
            "__postcondition_snapshots__ and cls.__invariants__ must equal the effective contracts (in order), the "
            "verdict obtained by evaluating those lists by hand must equal the verdict of the real call for all truth "
            "assignments, and every created class must reach the patched hook exactly once.", TRUST, "4/C18, 3.1"),
}


CHECKS.update({
    "C06": ("exprgen", "exploration", "Hypothesis-generated typed condition expressions rendered as in-decorator lambdas; "
            "oracle = CPython evaluation of an instrumented copy of the same expression (per-node values), message parsed "
            "and matched by AST; thorough tier adds 16 coverage-guided atheris campaigns over the same test",
            "Conditions over the supported expression forms (names from arguments/closure/globals/builtins with "
            "shadowing, attributes, subscripts, slices, calls with keyword/star arguments, all operators, chains, "
            "conditional and assignment expressions, f-strings, displays, comprehensions, all/any) on require/ensure/"
            "invariant, def/async def; every shown value must be a_repr of what CPython computed for that "
            "sub-expression, all() examples must be the first falsifying assignment, and (no None-bound name) every "
            "argument and every evaluated name/attribute/call/subscript/comprehension must be listed.",
            "Trusted: CPython's evaluation of the instrumented expression, ast.unparse, the message grammar parser. "
            "f-string interiors restricted to argument names; nothing lexically inside a comprehension is required by "
            "the completeness clause.", "4/C06, 3.3"),
    "C07": ("exprgen", "exploration", "Hypothesis-generated guarded partial operations and grammar expressions x source "
            "layouts x neighbouring decorators x nesting; oracles: CPython verdict, AST round-trip of the reported "
            "text, probe-set inclusion; thorough tier adds 16 coverage-guided atheris campaigns over the same test",
            "Guard templates (xs and xs[0] > k, o.child is None or ..., 0 < n < 10 // n, ...) with inputs on both sides "
            "of the guard and probe-instrumented grammar expressions are placed under seven decorator layouts, 0..2 "
            "neighbouring decorators above/below, three nestings, three roles, three error forms, sync/async; the "
            "caller must get exactly the configured error, with correct location/description, a condition text that "
            "parses to the generated expression, and no probe evaluated that Python's short-circuit skipped.",
            "Trusted: CPython, ast. Layouts come from an explicit layout grammar, not from all token-level freedom.",
            "4/C07, 3.3"),
    "C10": ("progmodel", "exploration", "Hypothesis-generated call graphs with scripts in conditions/captures/factories/"
            "invariants/bodies x all truth assignments; oracle = reference suspension semantics R + event budget for "
            "termination",
            "1..4 contracted functions and an invariant-carrying class with two instances; conditions, captures, error "
            "factories, invariants and bodies call any function/method any number of times (bodies bounded by fuel); "
            "the run must terminate within 4x the reference's event count and evaluate exactly the contracts the "
            "reference R evaluates.", TRUST, "4/C10, 3.1.5"),
    "C11": ("faults", "fault_enumeration", "enumeration of every injection point x 7 fault kinds per generated program "
            "(raise at k-th condition / __bool__ / capture / factory / body / argument __repr__ / async gate throw+close) "
            "+ drawn two-fault sequences; probe suite compared with a fresh thread",
            "For every generated program each event where the library calls user code becomes an injection point; each "
            "of 7 exception kinds (Exception and BaseException families, CancelledError, RecursionError) is injected "
            "there once; the surfaced exception must be the injected object or its documented wrapper, the following "
            "probe calls must behave as in a fresh thread and the suspension set must be empty.",
            TRUST + "Faults are injected where user code runs, not between bytecodes of the wrappers.", "4/C11, 3.5"),
    "C12": ("sched", "exploration", "harness-owned schedules: exhaustive enumeration of all interleavings of gate-to-gate "
            "segments of 2-task scenarios, Hypothesis-drawn 3-task schedules; emulated asyncio tasks "
            "(Context.run(coro.send)) and real threads with a baton",
            "Concurrent calls with individually chosen verdicts on one function / one object / two objects, in four "
            "context-inheritance modes (fresh, copied before/after the parent's first checked call, copied context in a "
            "worker thread); every call's verdict under every explored schedule must equal its verdict when run alone.",
            "Trusted: the task emulation equals asyncio's context handling. Pre-emption inside the wrappers' own bytecode "
            "is not scheduled (DESIGN section 7).", "4/C12, 3.4"),
    "C14": ("sigmodel+progmodel", "exploration", "differential testing against the bare callable (Hypothesis signatures x "
            "call shapes x decorator stacks) and against an undecorated twin class hierarchy (generated histories)",
            "Satisfied stacks of 1..5 contract decorators with foreign functools.wraps decorators in between on every "
            "callable kind, sync/async: identity of arguments/results/exceptions, metadata, signature, __wrapped__ chain "
            "length and single checker; generated class hierarchies with satisfied contracts must behave like their "
            "twin without any contract (outcomes, bodies run, abstractness).",
            "Trusted: CPython. Pickling/copying/metaclass conflicts are not explored.", "4/C14"),
    "C15": ("workers", "exploration", "complete enumeration of decorator x enabled x kind in 9 worker interpreters "
            "(python/-O/-OO x ICONTRACT_SLOW unset/''/'1') + metamorphic comparison of generated enabled=True programs "
            "across interpreter modes",
            "Every cell of the matrix is evaluated inside interpreters started with the respective flags and environment; "
            "disabled decorators must return the very object, leave vars() unchanged and never call the condition; "
            "explicitly enabled programs must give identical traces under python, -O and -OO.",
            "Trusted: the expected-enabled table transcribed from the statement; harness code avoids assert.", "4/C15, 3.6"),
    "C17": ("progmodel", "exploration", "Hypothesis-generated HISTORIES of definitions (functions, roots, sub-classes, "
            "siblings, multiple inheritance, invariants at any level), executed block by block; invariant after every "
            "step: introspection lists and probe-suite traces of all earlier definitions unchanged (metamorphic)",
            "After each definition step of a generated module the ids in every earlier checker's precondition groups, "
            "postconditions, snapshots and in __invariants__/__invariants_on_call__/__invariants_on_setattr__ and the "
            "event traces of a probe suite (construct, every member under all-truthy and all-falsy tables, attribute "
            "assignment) are compared with what they were right after that definition.",
            "Trusted: CPython; before/after comparison of the same library.", "4/C17"),
    "C19": ("sigmodel", "exploration", "complete enumeration of misuse kind x decorator x callable kind with negative "
            "twins + Hypothesis-generated signatures with one parameter renamed to a reserved name",
            "Every misuse named in the statement is constructed on every decorator/callable kind it can occur on; the "
            "exception class and the moment (decorator creation / application / call) must be as stated, and the twin "
            "without the misuse must be accepted.", "Trusted: CPython.", "4/C19"),
    "C20": ("exprgen+workers", "exploration", "metamorphic relations over generated violations: keyword permutations, "
            "positional/keyword passing, repetitions, worker interpreters with other PYTHONHASHSEED values; CPython "
            "oracle with the contract's own a_repr for every rendering",
            "Messages of generated violations (default and drawn per-contract reprlib.Repr limits, long strings/lists, "
            "sets of ints and strings, function/class/module arguments, _ARGS/_KWARGS named or not) must be identical "
            "across all permutations of four keyword arguments, three repetitions and hash seeds 0/1/4242/random, sorted "
            "by key, rendered through the contract's a_repr, free of unrepresentable values.",
            "Trusted: CPython, reprlib. Mixed-type sets excluded.", "4/C20"),
})

PENDING = {}

# directed / enumerated families added while answering seeded changes and findings (DESIGN 9.4); appended to the level text
EXTRA = {
    "C01": "call shapes incl. explicit None arguments; C04's two-base, gap and diamond matrices; a recursion matrix; adoption "
           "histories (a function already called is adopted as the override of a DBC member); concurrent histories (callers in "
           "copied contexts, tasks and threads).",
    "C02": "multi-base matrix, directed adoption histories; falsy and BaseException-only error objects; NotImplemented / "
           "Ellipsis results; async adapters carrying functools.wraps(sync function).",
    "C03": "constructor / invariant-order matrices, built-in bases, renamed members (aliases, lambdas, no-wraps decorators, "
           "also as __init__), undecorated middle classes, __setattr__ aliases, protected member names, nested contract-carrying "
           "helpers that fail inside a constructor / method, a diamond invariant matrix.",
    "C04": "two-base / gap / diamond / invariant-order matrices, constructor cases, plain-attribute and meta-class-name cases, "
           "decorator objects shared by base and override.",
    "C05": "flavours def / async / method / inherited override, re-entry, self by keyword, explicit None arguments, "
           "keyword-only callback parameters, contract histories (every shape through one decorated function), two precondition "
           "groups with a missing name at every position.",
    "C06": "directed conditions (all() examples beyond repr limits, non-bool all() elements, unknown keyword values for a "
           "tolerant callee), private-attribute value lines, values inside comprehensions that depend on loop variables hiding an "
           "argument (judged against the per-iteration values).",
    "C07": "seventeen decorator layouts (incl. break before @ / before attribute dots, blanks after @, parenthesised "
           "decorator), re-written source files, scope cases (late-bound closure variables, private attributes), "
           "condition kinds (function / partial / callable instance / bound method), comments and string literals holding lone "
           "parentheses / # / @.",
    "C08": "capture flavours, odd snapshot names, post-hoc duplicates, captures that call their own callable.",
    "C09": "falsy invalid error values; falsy and BaseException-only valid error objects; bound-method factories for every "
           "kind of owner (unreferenced, deleted, __slots__, class) after a garbage collection; callable exception instances.",
    "C10": "closures sharing a code object, nested constructors, calls refused by the checker itself, child interpreters "
           "with -O / -OO (enabled=True contracts re-entering themselves), classes without __init__ whose invariants / __repr__ "
           "re-enter the object, overlapping non-nested calls in one context.",
    "C11": "interleaved coroutines in one context, context histories (copied contexts, failing constructor re-run), a fault "
           "inside the awaited operation of a non-coroutine awaitable, real stack overflow at six stack alignments, every kind of "
           "ending followed by probes in child interpreters (default / -O / -OO).",
    "C12": "threads switched inside invariants and argument reprs, constructor in flight, a sync method next to coroutine "
           "methods, contexts copied mid-call, postconditions that hinge on the identity of the value their own call captured "
           "(also for a function called without arguments).",
    "C13": "recursion pairs, signature pairs, colour triples (def / async def / async adapter), coroutine invariants, "
           "awaitable results.",
    "C14": "diamond and static-member class cases, colour cases, first parameter not called self, reserved names without "
           "postconditions, odd objects (array-like defaults, foreign __new__ results, property docs, property sub-classes), "
           "constructor shapes (4 x 4 x 0..2 arguments).",
    "C15": "re-entrant programs, descriptor objects, snapshot+ensure cells, colliding snapshot names across modes, modules "
           "without retrievable source in the three interpreter modes.",
    "C16": "classes re-created through the meta-class (dataclass(slots=True)); mixed plain / coroutine / awaitable conditions "
           "within one stack of an async callable; decorator objects shared by base and override (trace and error); contracts "
           "attached after the class got its invariants.",
    "C17": "shared-object histories (dec / redec / cls / reuse / adopt / posthoc / partial / inv), reverse-order probing, "
           "shared-function cases (open finding D45), property-posthoc cases, late invariants, classes re-created and then "
           "decorated.",
    "C18": "async callables, invariant cells incl. extended / redefined properties, interpreter modes, no capture for a "
           "rejected call, distinct classes sharing a qualified name (announcements).",
    "C19": "falsy invalid errors, reserved keyword without **kwargs, reserved parameter on an override without contracts, "
           "reserved parameter with a failing precondition, coroutine callable objects as invariant conditions.",
    "C20": "maxlong and integers beyond it, Repr sub-classes, break-before-dot layout, closure and limits histories, every "
           "reprlib container kind around the default and own limits.",
}

ALL = ["C%02d" % i for i in range(1, 21)]


def main():
    checks = []
    for pid in ALL:
        if pid not in CHECKS:
            continue
        engine, cat, tech, text, note, ref = CHECKS[pid]
        checks.append({
            "property_id": pid,
            "quick_cmd": "./check %s --tier quick" % pid,
            "thorough_cmd": "./check %s --tier thorough" % pid,
            "evidence_file": "evidence/%s.json" % pid,
            "replay_cmd_template": "./check %s --replay {path}" % pid,
            "engine": engine,
            "level_claimed": {"category": cat, "text": text + (" Directed families on every run: " + EXTRA[pid] if pid in EXTRA else ""),
                              "design_ref": "DESIGN.md section " + ref + ", 9.4"},
            "level_note": note,
            "technique": tech,
        })
    na = [{"property_id": pid, "reason": PENDING.get(pid, "check not built yet in this round (planned, see DESIGN.md section 8)")}
          for pid in ALL if pid not in CHECKS]
    manifest = {
        "version": 1,
        "setup_cmd": "./setup.sh",
        "hooks": {
            "guard": "ICONTRACT_VERIF",
            "enable": "no source hooks: every observation point is user code the library calls (conditions, captures, "
                      "error factories, bodies, __bool__/__repr__) or documented introspection; ./check exports "
                      "ICONTRACT_VERIF=1 for uniformity only and imports icontract from /repo's working tree",
            "baseline_off_cmd": "cd /repo && /venv/bin/python -m pytest -ra -q -p no:cacheprovider --timeout=900 "
                                "--continue-on-collection-errors",
            "source_commits": [],
            "add_only": True,
        },
        "engines": [
            {"name": "sigmodel", "path": "vf/sigmodel.py", "serves_properties": ["C05", "C14", "C19"],
             "kind_free_text": "enumerator / Hypothesis strategies for signatures and bindable call shapes"},
            {"name": "progmodel", "path": "vf/progmodel/", "serves_properties":
                ["C01", "C02", "C03", "C04", "C08", "C09", "C10", "C11", "C13", "C16", "C17", "C18"],
             "kind_free_text": "generated contract programs (IR -> rendered module) + reference interpreter written "
                               "from the property statements"},
            {"name": "exprgen", "path": "vf/exprgen/", "serves_properties": ["C06", "C07", "C20"],
             "kind_free_text": "typed expression grammar rendered as in-decorator lambdas; CPython evaluation of an "
                               "instrumented copy is the oracle"},
            {"name": "sched", "path": "vf/props/c12.py", "serves_properties": ["C12"],
             "kind_free_text": "harness-owned schedules over gates in user code (asyncio tasks / threads)"},
            {"name": "faults", "path": "vf/props/c11.py", "serves_properties": ["C11"],
             "kind_free_text": "fault injection at every point where the library calls user code"},
            {"name": "fuzz", "path": "vf/fuzz.py", "serves_properties": ["C06", "C07"],
             "kind_free_text": "atheris/libFuzzer campaigns over the exprgen Hypothesis tests (fuzz_one_input, icontract "
                               "instrumented for coverage); thorough tier only, same oracles"},
        ],
        "checks": checks,
        "not_applicable": na,
        "notes": "All checks: ./check <ID> --tier quick|thorough; VERIF_SEED respected; exit 0/1/2 = held / VIOLATION / "
                 "harness error. Known findings: known_findings.json (open entries print KNOWN-FINDING, fixed entries "
                 "are regression cases).",
    }
    path = os.path.join(HERE, "MANIFEST.json")
    with open(path, "w") as fh:
        json.dump(manifest, fh, indent=1)
    try:
        import jsonschema

        jsonschema.validate(manifest, json.load(open("/root/.vp/MANIFEST.schema.json")))
        print("MANIFEST.json valid: %d checks, %d not_applicable" % (len(checks), len(na)))
    except ImportError:
        print("MANIFEST.json written (jsonschema not importable here)")


if __name__ == "__main__":
    sys.exit(main())
