#!/venv/bin/python
"""Generate /verif/MANIFEST.json from the table below and validate it against the schema."""
import json
import os
import sys

HERE = os.path.dirname(os.path.dirname(os.path.abspath(__file__)))

# id -> (engine, level category, technique, level text, level note, design ref)
CHECKS = {
    "C05": (
        "sigmodel", "exploration",
        "exhaustive enumeration of bounded signatures x call shapes + Hypothesis sampling; differential oracle "
        "(bare function / inspect.Signature.bind), identity comparison",
        "Every signature with <=2 positional-only, <=3 positional-or-keyword, <=2 keyword-only parameters, */** and "
        "every default placement is crossed with every call shape Python accepts (thorough: complete enumeration, "
        "quick: Hypothesis sample); each condition, capture and error factory must receive, by identity, what the "
        "bare body receives. Exhaustive inside the bounds, sampled beyond them; search, not proof.",
        "Trusted: CPython's own argument binding (the bare function is called with the same objects). Variadic "
        "parameter names and reserved names are outside the generated domain.",
        "4/C05, 3.2"),
}

PENDING = {}

ALL = ["C%02d" % i for i in range(1, 21)]


def main():
    checks = []
    for pid in ALL:
        if pid not in CHECKS:
            continue
        engine, cat, tech, text, note, ref = CHECKS[pid]
        checks.append({
            "property_id": pid,
            "quick_cmd": "./check %s --tier quick" % pid,
            "thorough_cmd": "./check %s --tier thorough" % pid,
            "evidence_file": "evidence/%s.json" % pid,
            "replay_cmd_template": "./check %s --replay {path}" % pid,
            "engine": engine,
            "level_claimed": {"category": cat, "text": text, "design_ref": "DESIGN.md section " + ref},
            "level_note": note,
            "technique": tech,
        })
    na = [{"property_id": pid, "reason": PENDING.get(pid, "check not built yet in this round (planned, see DESIGN.md section 8)")}
          for pid in ALL if pid not in CHECKS]
    manifest = {
        "version": 1,
        "setup_cmd": "./setup.sh",
        "hooks": {
            "guard": "ICONTRACT_VERIF",
            "enable": "no source hooks: every observation point is user code the library calls (conditions, captures, "
                      "error factories, bodies, __bool__/__repr__) or documented introspection; ./check exports "
                      "ICONTRACT_VERIF=1 for uniformity only and imports icontract from /repo's working tree",
            "baseline_off_cmd": "cd /repo && /venv/bin/python -m pytest -ra -q -p no:cacheprovider --timeout=900 "
                                "--continue-on-collection-errors",
            "source_commits": [],
            "add_only": True,
        },
        "engines": [
            {"name": "sigmodel", "path": "vf/sigmodel.py", "serves_properties": ["C05", "C14", "C19"],
             "kind_free_text": "enumerator / Hypothesis strategies for signatures and bindable call shapes"},
            {"name": "progmodel", "path": "vf/progmodel/", "serves_properties":
                ["C01", "C02", "C03", "C04", "C08", "C09", "C10", "C11", "C13", "C16", "C17", "C18"],
             "kind_free_text": "generated contract programs (IR -> rendered module) + reference interpreter written "
                               "from the property statements"},
            {"name": "exprgen", "path": "vf/exprgen/", "serves_properties": ["C06", "C07", "C20"],
             "kind_free_text": "typed expression grammar rendered as in-decorator lambdas; CPython evaluation of an "
                               "instrumented copy is the oracle"},
            {"name": "sched", "path": "vf/sched.py", "serves_properties": ["C12"],
             "kind_free_text": "harness-owned schedules over gates in user code (asyncio tasks / threads)"},
            {"name": "faults", "path": "vf/faults.py", "serves_properties": ["C11"],
             "kind_free_text": "fault injection at every point where the library calls user code"},
        ],
        "checks": checks,
        "not_applicable": na,
        "notes": "All checks: ./check <ID> --tier quick|thorough; VERIF_SEED respected; exit 0/1/2 = held / VIOLATION / "
                 "harness error. Known findings: known_findings.json (open entries print KNOWN-FINDING, fixed entries "
                 "are regression cases).",
    }
    path = os.path.join(HERE, "MANIFEST.json")
    with open(path, "w") as fh:
        json.dump(manifest, fh, indent=1)
    try:
        import jsonschema

        jsonschema.validate(manifest, json.load(open("/root/.vp/MANIFEST.schema.json")))
        print("MANIFEST.json valid: %d checks, %d not_applicable" % (len(checks), len(na)))
    except ImportError:
        print("MANIFEST.json written (jsonschema not importable here)")


if __name__ == "__main__":
    sys.exit(main())
