#!/venv/bin/python
"""Generate /verif/MANIFEST.json from the table below and validate it against the schema."""
import json
import os
import sys

HERE = os.path.dirname(os.path.dirname(os.path.abspath(__file__)))

# id -> (engine, level category, technique, level text, level note, design ref)
PM = ("Hypothesis-generated contract programs (IR rendered to a real module) x all truth assignments; oracle = "
      "reference interpreter transcribed from the property statements; collect-then-minimise failure buckets")
TRUST = ("Trusted: CPython, Hypothesis, the ~600-line reference interpreter vf/progmodel/ref.py (its own errors exit 2). "
         "Conditions/captures/factories/bodies of generated programs only log and answer from the truth table. ")

CHECKS = {
    "C01": ("progmodel", "exploration", PM + "; projection: body entered iff DNF(truth), no capture/post on rejection",
            "Generated callables of every kind (function, instance/static/class method, property accessors, __init__, "
            "__new__, sync/async) with stacks of 0..4 own and inherited preconditions are called under ALL 2^n truth "
            "assignments (n<=6 quick, <=9 thorough; sampled beyond); the body must run iff the reference DNF holds. "
            "Search over programs, exhaustive over assignments per program; not a proof.",
            TRUST + "Which falsy condition's error surfaces is left to C16.", "4/C01, 3.1"),
    "C02": ("progmodel", "exploration", PM + "; projection: postcondition events with result/argument/OLD identities, "
            "caller's object/exception identity",
            "Generated callables with stacks of own/inherited postconditions and bodies returning falsy/mutable/fresh "
            "objects or raising Exception/BaseException kinds, under all truth assignments; compares which "
            "postconditions ran with which objects and what the caller received, by identity.",
            TRUST + "StopIteration from async bodies excluded (PEP 479).", "4/C02, 3.1"),
    "C03": ("progmodel", "exploration", "Hypothesis-generated class hierarchies x operation HISTORIES (stateful sequences "
            "with per-operation truth sequences of the invariants); oracle = reference trace per operation",
            "Classes of four shapes (plain, slots, dataclass, no __init__) under DBC/DBCMeta/plain roots with mixed "
            "check_on invariants at several levels and every member kind; histories of 3..10 operations on 1..2 "
            "instances, invariants falsy before or turning falsy during an operation; every operation's invariant "
            "events and outcome must equal the reference. Search, not proof.",
            TRUST + "Inherited C slots are 'may check' and not probed. Finding D19 (nested __new__) is open and excluded "
                    "by construction.", "4/C03, 3.1"),
    "C04": ("progmodel", "exploration", PM + " over inheritance DAGs (multiple roots, diamonds, gaps); verdict projection",
            "DAGs of 2..6 classes with one member kind, per class {absent, redefined without/with preconditions}, "
            "postconditions, snapshots, invariants, constructor contracts; the member is called on an instance of "
            "every class under all truth assignments; verdict and class-creation errors against the DNF/CNF computed "
            "from the declaration.", TRUST + "Diamond-duplicated snapshots are unspecified and skipped; __call__ avoided "
            "(see DESIGN).", "4/C04, 3.1"),
    "C05": (
        "sigmodel", "exploration",
        "exhaustive enumeration of bounded signatures x call shapes + Hypothesis sampling; differential oracle "
        "(bare function / inspect.Signature.bind), identity comparison",
        "Every signature with <=2 positional-only, <=3 positional-or-keyword, <=2 keyword-only parameters, */** and "
        "every default placement is crossed with every call shape Python accepts (thorough: complete enumeration, "
        "quick: Hypothesis sample); each condition, capture and error factory must receive, by identity, what the "
        "bare body receives. Exhaustive inside the bounds, sampled beyond them; search, not proof.",
        "Trusted: CPython's own argument binding (the bare function is called with the same objects). Variadic "
        "parameter names and reserved names are outside the generated domain.",
        "4/C05, 3.2"),
    "C08": ("progmodel", "exploration", PM + "; projection: capture count/position, tokens seen through OLD; enumerated "
            "definition-time matrix",
            "Generated callables with 0..3 snapshots (own/inherited, named/unnamed) and mutating bodies under all truth "
            "assignments, plus the complete definition-time matrix (duplicate names on a function / in a hierarchy / in "
            "sibling bases, unnamed with 0 or 2 parameters, no postcondition below, OLD.<unknown>) x kind x sync/async.",
            TRUST, "4/C08, 3.1"),
    "C09": ("progmodel", "exploration", "complete enumeration of the error-form x role x kind x sync/async matrix (each "
            "cell violated three times) + " + PM,
            "All 7 error forms x {pre, post, invariant} x all callable kinds x sync/async are executed; type, identity, "
            "args and message (against the twin without `error`) of the raised object and the factory's call "
            "count/arguments are checked; invalid kinds must raise ValueError at decorator creation for all three "
            "decorators; generated programs vary the names factories ask for.", TRUST, "4/C09, 3.1"),
    "C13": ("progmodel", "exploration", "metamorphic: the same generated program rendered with def and async def must "
            "give equal traces; " + PM + " for awaitable flavours",
            "Programs of the C01-C04/C08/C09 families are rendered twice (def / async def) and compared event by "
            "event for all truth assignments; on async callables every condition/capture is drawn from five "
            "awaitable flavours (reference: awaited, result judged); on sync callables coroutine flavours must raise "
            "ValueError before the body.", TRUST + "No real suspension here (C12).", "4/C13, 3.1"),
    "C16": ("progmodel", "exploration", PM + "; the WHOLE event trace (order, at-most-once, first failure) is compared",
            "Stacks, chains and DAGs with several simultaneously falsy contracts at different positions/levels, "
            "invariants + pre + snapshot + post on one member, named and lambda conditions; the complete evaluation "
            "log of every call must equal the reference log under all truth assignments.",
            TRUST + "Re-evaluation of a violated lambda and error construction for a failed alternative group are "
                    "optional events.", "4/C16, 3.1"),
    "C18": ("progmodel", "exploration", PM + "; static comparison of introspected lists with the reference + manual "
            "evaluation of the lists as tests/test_for_integrators.py does + patched registration hook",
            "For generated functions and DAGs the ids in find_checker(...).__preconditions__/__postconditions__/"
            "__postcondition_snapshots__ and cls.__invariants__ must equal the effective contracts (in order), the "
            "verdict obtained by evaluating those lists by hand must equal the verdict of the real call for all truth "
            "assignments, and every created class must reach the patched hook exactly once.", TRUST, "4/C18, 3.1"),
}

PENDING = {}

ALL = ["C%02d" % i for i in range(1, 21)]


def main():
    checks = []
    for pid in ALL:
        if pid not in CHECKS:
            continue
        engine, cat, tech, text, note, ref = CHECKS[pid]
        checks.append({
            "property_id": pid,
            "quick_cmd": "./check %s --tier quick" % pid,
            "thorough_cmd": "./check %s --tier thorough" % pid,
            "evidence_file": "evidence/%s.json" % pid,
            "replay_cmd_template": "./check %s --replay {path}" % pid,
            "engine": engine,
            "level_claimed": {"category": cat, "text": text, "design_ref": "DESIGN.md section " + ref},
            "level_note": note,
            "technique": tech,
        })
    na = [{"property_id": pid, "reason": PENDING.get(pid, "check not built yet in this round (planned, see DESIGN.md section 8)")}
          for pid in ALL if pid not in CHECKS]
    manifest = {
        "version": 1,
        "setup_cmd": "./setup.sh",
        "hooks": {
            "guard": "ICONTRACT_VERIF",
            "enable": "no source hooks: every observation point is user code the library calls (conditions, captures, "
                      "error factories, bodies, __bool__/__repr__) or documented introspection; ./check exports "
                      "ICONTRACT_VERIF=1 for uniformity only and imports icontract from /repo's working tree",
            "baseline_off_cmd": "cd /repo && /venv/bin/python -m pytest -ra -q -p no:cacheprovider --timeout=900 "
                                "--continue-on-collection-errors",
            "source_commits": [],
            "add_only": True,
        },
        "engines": [
            {"name": "sigmodel", "path": "vf/sigmodel.py", "serves_properties": ["C05", "C14", "C19"],
             "kind_free_text": "enumerator / Hypothesis strategies for signatures and bindable call shapes"},
            {"name": "progmodel", "path": "vf/progmodel/", "serves_properties":
                ["C01", "C02", "C03", "C04", "C08", "C09", "C10", "C11", "C13", "C16", "C17", "C18"],
             "kind_free_text": "generated contract programs (IR -> rendered module) + reference interpreter written "
                               "from the property statements"},
            {"name": "exprgen", "path": "vf/exprgen/", "serves_properties": ["C06", "C07", "C20"],
             "kind_free_text": "typed expression grammar rendered as in-decorator lambdas; CPython evaluation of an "
                               "instrumented copy is the oracle"},
            {"name": "sched", "path": "vf/sched.py", "serves_properties": ["C12"],
             "kind_free_text": "harness-owned schedules over gates in user code (asyncio tasks / threads)"},
            {"name": "faults", "path": "vf/faults.py", "serves_properties": ["C11"],
             "kind_free_text": "fault injection at every point where the library calls user code"},
        ],
        "checks": checks,
        "not_applicable": na,
        "notes": "All checks: ./check <ID> --tier quick|thorough; VERIF_SEED respected; exit 0/1/2 = held / VIOLATION / "
                 "harness error. Known findings: known_findings.json (open entries print KNOWN-FINDING, fixed entries "
                 "are regression cases).",
    }
    path = os.path.join(HERE, "MANIFEST.json")
    with open(path, "w") as fh:
        json.dump(manifest, fh, indent=1)
    try:
        import jsonschema

        jsonschema.validate(manifest, json.load(open("/root/.vp/MANIFEST.schema.json")))
        print("MANIFEST.json valid: %d checks, %d not_applicable" % (len(checks), len(na)))
    except ImportError:
        print("MANIFEST.json written (jsonschema not importable here)")


if __name__ == "__main__":
    sys.exit(main())
