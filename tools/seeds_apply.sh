#!/bin/bash
# seeds_apply.sh : list the seeded changes whose patch.diff no longer applies to /repo's HEAD (after a repair touched the
# same lines); such patches are ported (see tools/confirm_seeds.py for re-confirmation afterwards).
wt=/tmp/applywt_$$
git -C /repo worktree add -q --detach "$wt" HEAD || exit 3
trap 'git -C /repo worktree remove --force "$wt" 2>/dev/null' EXIT
cd "$wt"
for d in /verif/seeded/C*-*/; do
  n=$(basename "$d")
  if python3 -c "import json,sys; sys.exit(0 if json.load(open('$d/meta.json')).get('obsolete') else 1)" 2>/dev/null; then continue; fi
  if ! git apply --check "$d/patch.diff" 2>/dev/null; then
    if ! patch -p1 -s --dry-run -F3 < "$d/patch.diff" >/dev/null 2>&1; then echo "NOAPPLY $n"; fi
  fi
done
