#!/venv/bin/python
"""robust.py [--seeds 2,3] [--jobs 5] [names...]: for every seeded change, run the quick check of its property at further
VERIF_SEED values against a scratch worktree with the patch applied, and record in seeded/<name>/meta.json under
"robust": {seed: exit code}. A seeded change that is only caught at some seeds points at detection by chance."""
import concurrent.futures
import json
import os
import subprocess
import sys

HERE = os.path.dirname(os.path.dirname(os.path.abspath(__file__)))
args = sys.argv[1:]
seeds, jobs = [2, 3], 5
while args and args[0].startswith("--"):
    if args[0] == "--seeds":
        seeds = [int(x) for x in args[1].split(",")]
    elif args[0] == "--jobs":
        jobs = int(args[1])
    args = args[2:]
names = args or sorted(n for n in os.listdir(os.path.join(HERE, "seeded")) if os.path.exists(os.path.join(HERE, "seeded", n, "patch.diff")))


def one(name):
    d = os.path.join(HERE, "seeded", name)
    if json.load(open(os.path.join(d, "meta.json"))).get("obsolete"):
        return name, {}
    wt = "/tmp/robust_wt_%s" % name
    subprocess.run(["git", "-C", "/repo", "worktree", "remove", "--force", wt], capture_output=True)
    subprocess.run(["git", "-C", "/repo", "worktree", "add", "-q", "--detach", wt, "HEAD"], check=True)
    try:
        ok = subprocess.run(["git", "-C", wt, "apply", os.path.join(d, "patch.diff")], capture_output=True).returncode == 0
        if not ok:
            ok = subprocess.run("patch -p1 -s -F3 --no-backup-if-mismatch < %s" % os.path.join(d, "patch.diff"), shell=True,
                                cwd=wt, capture_output=True).returncode == 0
        if not ok:
            return name, {"error": "patch does not apply"}
        prop = name.split("-")[0]
        res = {}
        for s in seeds:
            p = subprocess.run([os.path.join(HERE, "check"), prop, "--tier", "quick", "--seed", str(s), "--no-evidence"],
                               env=dict(os.environ, VERIF_REPO=wt), capture_output=True, text=True, timeout=3600)
            res[str(s)] = p.returncode
        return name, res
    finally:
        subprocess.run(["git", "-C", "/repo", "worktree", "remove", "--force", wt], capture_output=True)


with concurrent.futures.ThreadPoolExecutor(max_workers=jobs) as ex:
    for name, res in ex.map(one, names):
        mp = os.path.join(HERE, "seeded", name, "meta.json")
        m = json.load(open(mp))
        r = m.get("robust", {})
        r.update(res)
        m["robust"] = r
        json.dump(m, open(mp, "w"), indent=1)
        flag = "" if all(v == 1 for v in res.values()) else "   <<<<<< not caught at every seed"
        print(name, res, flag, flush=True)
subprocess.run(["find", os.path.join(HERE, "replays"), "-name", "*.json", "-delete"])
