#!/bin/bash
# seeds.sh "<ids>" "<seeds>" : run quick checks for several seeds in parallel, report only non-clean runs
ids="$1"; seeds="$2"
cd "$(dirname "${BASH_SOURCE[0]}")/.."
for id in $ids; do for s in $seeds; do
  ( out=$(./check $id --tier quick --no-evidence --seed $s 2>&1); rc=$?; echo "$id seed=$s rc=$rc $(echo "$out" | grep -c VIOLATION) violations; $(echo "$out" | grep 'bucket' | head -3 | tr '\n' ' ' | cut -c1-300)" ) &
done; wait; done
