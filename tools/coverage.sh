#!/bin/bash
# tools/coverage.sh [tier]: line/branch coverage of /repo/icontract reached by shard 0 of every check (gap hunting only;
# worker sub-interpreters of C15/C18 are not traced). Report in /tmp/vfcov/report.txt.
here="$(cd "$(dirname "${BASH_SOURCE[0]}")/.." && pwd)"
cd "$here" || exit 2
tier="${1:-quick}"
out=/tmp/vfcov; rm -rf "$out"; mkdir -p "$out"
export PYTHONDONTWRITEBYTECODE=1 PYTHONHASHSEED=0 VERIF_REPO=/repo ICONTRACT_VERIF=1
for i in $(seq -w 1 20); do echo C$i; done | xargs -P 10 -I{} sh -c \
  "COVERAGE_FILE=$out/.coverage.{} /venv/bin/python -B -m coverage run --branch --source=/repo/icontract -m vf.cli {} --tier $tier --seed \${VERIF_SEED:-1} --shard 0/1 --dump $out/{}.json >/dev/null 2>$out/{}.err"
cd "$out" && /venv/bin/python -m coverage combine -q .coverage.* >/dev/null 2>&1
/venv/bin/python -m coverage report -m --skip-empty > "$out/report.txt" 2>&1
tail -20 "$out/report.txt"
