#!/bin/bash
# refind.sh <commit> <check id> [nlines]: run a check against /repo as it was just BEFORE <commit> (scratch worktree)
c="$1"; id="$2"
wt=/tmp/refind_wt_$$
git -C /repo worktree add -q --detach "$wt" "${c}^" || exit 3
(cd /verif && VERIF_REPO="$wt" ./check "$id" --tier quick --no-evidence 2>&1 | grep -E "^(VIOLATION|  bucket|C[0-9]+ tier|HARNESS)" | cut -c1-230 | head -${3:-12})
git -C /repo worktree remove --force "$wt"
