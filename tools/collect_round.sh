#!/bin/bash
# collect_round.sh <N> <suffix> <ids...>: copy the deliverables of round N's scratch worktrees into seeded/_incoming/<id>-<suffix>,
# confirm them (tools/confirm_seeds.py) and remove the worktree.
n="$1"; suf="$2"; shift 2
here="$(cd "$(dirname "${BASH_SOURCE[0]}")/.." && pwd)"
for id in "$@"; do
  wt=/tmp/mut${n}_$id
  [ -f "$wt/mutation/patch.diff" ] || { echo "$id: no patch.diff"; continue; }
  mkdir -p "$here/seeded/_incoming/$id-$suf"
  git -C "$wt" diff -- icontract > "$here/seeded/_incoming/$id-$suf/patch.diff"
  cp "$wt/mutation/demo.py" "$wt/mutation/meta.json" "$here/seeded/_incoming/$id-$suf/"
  /venv/bin/python "$here/tools/confirm_seeds.py" "$id-$suf" 2>&1 | grep -v "^$"
  git -C /repo worktree remove --force "$wt"
done
