#!/usr/bin/env python3
"""Prepare round N of seeded changes: one scratch worktree of /repo HEAD per property under /tmp/mut<N>_<id> with a
self-contained PROMPT.txt for an independent sub-agent (property text only; nothing from /verif's machinery).

usage: tools/seed_round.py <N> [ids...]
"""
import json
import os
import subprocess
import sys

HERE = os.path.dirname(os.path.dirname(os.path.abspath(__file__)))
n = sys.argv[1]
only = sys.argv[2:]
props = {}
for l in open(os.path.join(HERE, "properties.jsonl")):
    p = json.loads(l)
    props[p["id"]] = p
for pid, p in props.items():
    if only and pid not in only:
        continue
    wt = "/tmp/mut%s_%s" % (n, pid)
    subprocess.run(["git", "-C", "/repo", "worktree", "remove", "--force", wt], capture_output=True)
    subprocess.run(["git", "-C", "/repo", "worktree", "add", "-q", "--detach", wt, "HEAD"], check=True)
    os.makedirs(wt + "/mutation", exist_ok=True)
    taken = []
    for suffix in "abcdefghijklmn":
        m = os.path.join(HERE, "seeded", "%s-%s" % (pid, suffix), "meta.json")
        if os.path.exists(m):
            taken.append(json.load(open(m)).get("summary", ""))
    taken_text = "\n".join('  - "%s"' % t for t in taken) or "  (none recorded)"
    text = f"""You are helping to evaluate a test/verification harness for the Python library Parquery/icontract (design-by-contract decorators). Your job is to play the role of a developer who introduces a SUBTLE REGRESSION.

You have your own scratch git worktree of the library at {wt} (work ONLY inside that directory; never touch /repo or /verif, and do not read anything under /verif). The Python interpreter to use is /venv/bin/python. IMPORTANT: `import icontract` picks up the worktree's copy only if the worktree root is first on sys.path: use `cd {wt} && /venv/bin/python -c ...` or `-m`, and make every script you write start with `import os, sys; sys.path.insert(0, os.getcwd())` BEFORE importing icontract, and print icontract.__file__ to be sure. (Running `python mutation/demo.py` puts mutation/ on sys.path, not the cwd - without the insert you would silently test a different installed copy.)

The existing test suite is run like this (from the worktree directory):
    cd {wt} && /venv/bin/python -m pytest -q -p no:cacheprovider --timeout=900 --continue-on-collection-errors
On the unmodified tree 358 tests pass and exactly these 6 fail for unrelated environment reasons (ignore them): tests/test_globals.py::TestSlow::test_slow_set, tests/test_inheritance_postcondition.py::TestInvalid::test_abstract_method_not_implemented, tests/test_inheritance_precondition.py::TestInvalid::test_abstract_method_not_implemented, and three in tests/test_mypy_decorators.py.

Do NOT use `git stash` (the stash is shared with other worktrees of the same repository and other people are working in them). To run something without your change use `git -C {wt} diff -- icontract > {wt}/mutation/patch.diff; git -C {wt} apply -R mutation/patch.diff; ...; git -C {wt} apply mutation/patch.diff`.

Here is a semantic property that the library is supposed to satisfy:

  Property {pid}: {p['title']}
  Statement: {p['statement']}
  Quantified over: {p['quantifier']['text']}
  Code that is meant to make it hold: {json.dumps(p['anchors']['mechanism'])} in files {p['anchors']['files']}
  (line numbers in these anchors may have drifted; search for the function names)

TASK: make a small change to the library source (files under {wt}/icontract/ only) that BREAKS this property while (a) the code still imports/compiles, and (b) the existing test suite still gives the same 358 passes (no new failures). The change should look like a plausible refactoring slip, optimisation or partial fix a real developer could make - not sabotage that ordinary use would expose at once. It MUST need something SPECIFIC to manifest: an unusual input or call shape, a particular kind of callable (e.g. only async, only class methods, only property setters/deleters, only __new__), a multi-step sequence of operations (a particular history), a particular position in a stack or hierarchy (e.g. only the third condition, only a grand-parent's contract, only the second base class, only a diamond), a fault or exception of a particular kind at a particular point, a particular interleaving of tasks/threads, a particular interpreter mode or environment, or two cooperating sites that each look fine alone. Do not touch the tests. Do not merely make the library crash on import or on every call.

Other people already used these ideas for the same property, so pick a clearly DIFFERENT mechanism and, if possible, a different part of the code:
{taken_text}

DELIVERABLES (all inside {wt}/mutation/):
  1. patch.diff  - output of `git -C {wt} diff -- icontract` (the change, and only the change to library sources).
  2. demo.py     - a small self-contained program that demonstrates the broken property: run as `cd {wt} && /venv/bin/python mutation/demo.py` it must exit with a NON-ZERO status (and print what went wrong) with your change applied, and exit 0 on the unmodified library. It must start with `import os, sys; sys.path.insert(0, os.getcwd())`. Verify both ways (apply -R / apply as described above). demo.py should check the property's behaviour directly through the public API, not internal names.
  3. meta.json   - {{"property": "{pid}", "summary": "<one sentence: what was changed>", "needs": "<what specific input/sequence/kind/interleaving is needed for the break to manifest>", "files": [...], "tests_still_pass": true/false, "test_summary_line": "<last line of pytest output with the change applied>"}}

Leave the change APPLIED in the worktree's working tree when you finish (do not commit) and make sure `git -C {wt} diff -- icontract` equals your patch.diff. Before finishing, re-run the full test suite with the change applied and confirm the pass count is still 358 with the same 6 failures; if a test newly fails, pick a different change. Keep the patch small (ideally under 15 changed lines). In your final message, summarise the change, what it needs to manifest, and the test result line. In addition, at the end of your final message, list any defect you noticed that already exists on the UNMODIFIED library (a legal use of the public API in which the property does not hold), with a minimal reproducer each; do not build your change on those."""
    open(wt + "/mutation/PROMPT.txt", "w").write(text)
    print("prepared", wt)
