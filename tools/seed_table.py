#!/usr/bin/env python3
"""seed_table.py: regenerate the table of section 9.5 of DESIGN.md from seeded/*/meta.json."""
import json, os, re
HERE = os.path.dirname(os.path.dirname(os.path.abspath(__file__)))
rows = []
for name in sorted(os.listdir(os.path.join(HERE, "seeded"))):
    mp = os.path.join(HERE, "seeded", name, "meta.json")
    if not os.path.exists(mp):
        continue
    m = json.load(open(mp))
    own = name.split("-")[0]
    caught = sorted(m.get("caught_by", []))
    label = ", ".join(caught) if caught else "NOT CAUGHT"
    if m.get("history") and own in caught:
        label += " (after strengthening)"
    if m.get("obsolete"):
        label = ("" if not caught else label + "; ") + "obsolete now: " + m["obsolete"].split(":")[0]
    cell = lambda s: (s or "").replace("|", "/").replace("\n", " ")[:170]
    rows.append("| %s | %s | %s | %s |" % (name, cell(m.get("summary")), cell(m.get("needs_to_manifest")), label))
table = "\n".join(["| seed | change | needs | caught by |", "|------|--------|-------|-----------|"] + rows)
p = os.path.join(HERE, "DESIGN.md")
s = open(p).read()
i = s.index("| seed | change | needs | caught by |")
j = i
lines = s[i:].split("\n")
k = 0
while k < len(lines) and lines[k].startswith("|"):
    k += 1
s = s[:i] + table + "\n" + "\n".join(lines[k:])
open(p, "w").write(s)
print("%d rows" % len(rows))
