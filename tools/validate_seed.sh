#!/bin/bash
# validate_seed.sh <seed dir with patch.diff demo.py> <check ids...> : confirm a seeded change in a scratch worktree
d="$1"; shift
wt=/tmp/seedwt_$$
git -C /repo worktree add -q --detach "$wt" HEAD || exit 3
cleanup() { git -C /repo worktree remove --force "$wt" 2>/dev/null; }
trap cleanup EXIT
cd "$wt"
mkdir -p mutation; cp "$d/demo.py" mutation/demo.py
echo -n "demo without change: "; /venv/bin/python mutation/demo.py >/dev/null 2>&1; echo "exit=$?"
if ! git apply --check "$d/patch.diff" 2>/dev/null; then
  if ! patch -p1 -s --dry-run -F3 < "$d/patch.diff" >/dev/null 2>&1; then echo "PATCH DOES NOT APPLY"; exit 4; fi
  patch -p1 -s -F3 --no-backup-if-mismatch < "$d/patch.diff"; echo "(applied with fuzz)"
else git apply "$d/patch.diff"; fi
echo -n "demo with change:    "; /venv/bin/python mutation/demo.py >/dev/null 2>&1; echo "exit=$?"
echo -n "tests with change:   "; /venv/bin/python -m pytest -q -p no:cacheprovider --timeout=900 --continue-on-collection-errors 2>&1 | tail -1
for id in "$@"; do
  out=$(cd /verif && VERIF_REPO="$wt" timeout 1800 ./check "$id" --tier quick --no-evidence 2>&1); rc=$?
  echo "check $id: exit=$rc; $(echo "$out" | grep -c '^VIOLATION') violation buckets; $(echo "$out" | grep '  bucket' | head -2 | tr '\n' ' ' | cut -c1-200)"
done
find /verif/replays -name '*.json' -delete
