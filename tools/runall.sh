#!/bin/bash
# runall.sh [tier] : run every registered check sequentially, print the summary lines
tier=${1:-quick}
cd "$(dirname "${BASH_SOURCE[0]}")/.."
./setup.sh >/dev/null 2>&1   # hypothesis in /venv, atheris under .deps (not part of a committed snapshot)
for id in $(python3-vt -c "import json; print(' '.join(c['property_id'] for c in json.load(open('MANIFEST.json'))['checks']))"); do
  out=$(./check $id --tier $tier 2>&1); rc=$?
  echo "$(echo "$out" | grep -E "^C[0-9]+ tier" | tail -1) rc=$rc"
  echo "$out" | grep -E "^(VIOLATION|HARNESS|KNOWN|  bucket)" | cut -c1-200 | head -12
done
