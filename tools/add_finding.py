#!/venv/bin/python
"""add_finding.py <id> <property> <open|fixed> <commit|-> <replay.json> <what fails...>  - append to known_findings.json"""
import json, sys
fid, prop, status, commit, replay = sys.argv[1:6]
what = " ".join(sys.argv[6:])
kf = json.load(open("/verif/known_findings.json"))
case = json.load(open(replay))["case"]
e = {"id": fid, "property": prop, "status": status, "what_fails": what, "repro": case}
if status == "fixed":
    e["commit"] = commit
    e["line"] = "fixed: property=%s %s %s" % (prop, commit, what)
kf["findings"] = [f for f in kf["findings"] if not (f["id"] == fid and f["property"] == prop)] + [e]
json.dump(kf, open("/verif/known_findings.json", "w"), indent=1)
print("recorded", fid, prop, status)
