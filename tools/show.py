#!/venv/bin/python
"""show.py <replay.json> : per-op reference vs real traces of a progmodel replay, then the module text."""
import sys, json
sys.path.insert(0, '/verif'); sys.path.insert(0, '/repo')
from vf.progmodel import harness as H
body = json.load(open(sys.argv[1])); c = body['case']
r = H.run_case(c['program'], c['ops'], {int(k): v for k, v in (c.get('truth') or {}).items()})
print("defmismatch", r.def_mismatch)
for i, op in enumerate(r.ops):
    rs, qs = H.segment(r.ref_log, r.ref_outs, i), H.segment(r.real_log, r.real_outs, i)
    flag = "" if (H.traces_match(rs, qs) and H.outcome_matches(r.ref_outs[i], r.real_outs[i])) else "   <<<<<< DIFF"
    print(i, {k: v for k, v in op.items() if k != 'truth'}, flag)
    print("   REF ", r.ref_outs[i][:2], [(e[0], e[1]) + (("opt",) if len(e) > 3 else ()) for e in rs])
    print("   REAL", r.real_outs[i][:2], [(e[0], e[1]) for e in qs])
    if flag: print("   truth", op.get('truth'))
t = r.text
if len(sys.argv) > 2:
    print(t[t.index('import abc'):])
