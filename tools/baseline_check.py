#!/venv/bin/python
"""Run the pinned test suite of /repo (guard off) and compare the passing set with BASELINE.json stable_pass."""
import json, os, subprocess, sys, tempfile, xml.etree.ElementTree as ET
base = json.load(open("/root/.vp/BASELINE.json"))
want = set(base["stable_pass"])
fd, path = tempfile.mkstemp(suffix=".xml"); os.close(fd)
env = dict(os.environ); env.pop("ICONTRACT_VERIF", None)
subprocess.run(["/venv/bin/python", "-m", "pytest", "-q", "-p", "no:cacheprovider", "--timeout=900",
                "--continue-on-collection-errors", "--junitxml=" + path], cwd="/repo", env=env,
               stdout=subprocess.DEVNULL, stderr=subprocess.DEVNULL)
passed = set()
for tc in ET.parse(path).getroot().iter("testcase"):
    if not any(ch.tag in ("failure", "error", "skipped") for ch in tc):
        passed.add("%s::%s" % (tc.get("classname"), tc.get("name")))
os.unlink(path)
missing = sorted(want - passed)
print("baseline stable_pass=%d, passing now=%d, missing=%d" % (len(want), len(passed), len(missing)))
for m in missing[:5]: print("  MISSING", m)
sys.exit(1 if missing else 0)
