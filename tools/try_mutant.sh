#!/bin/bash
# try_mutant.sh <patch.diff> <check id> [more ids...]  - apply to /repo, run quick checks, always revert.
patch="$1"; shift
cd /repo || exit 2
if [ -n "$(git status --porcelain -- icontract)" ]; then echo "repo dirty"; exit 2; fi
if ! git apply "$patch" 2>/dev/null; then
  if ! git apply -3 "$patch" 2>/dev/null; then
    if ! patch -p1 -s --no-backup-if-mismatch < "$patch"; then echo "PATCH DOES NOT APPLY"; git checkout -- . ; exit 3; fi
  fi
  git reset -q 2>/dev/null
fi
for id in "$@"; do
  (cd /verif && timeout 1200 ./check "$id" --tier quick --no-evidence 2>&1 | grep -E "^(VIOLATION|KNOWN|HARNESS|C[0-9]+ tier|  bucket)" | cut -c1-220 | head -8; echo "  -> $id exit=${PIPESTATUS[0]}")
done
git checkout -- . ; git status --porcelain | head -3
