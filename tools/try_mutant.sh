#!/bin/bash
# try_mutant.sh <patch.diff> <check id> [more ids...]  - apply the change in a scratch worktree of /repo's HEAD (so that
# background runs reading /repo are not disturbed), run the quick checks against it (VERIF_REPO), remove the worktree.
patch="$1"; shift
wt=/tmp/trywt_$$
git -C /repo worktree add -q --detach "$wt" HEAD || exit 3
cleanup() { git -C /repo worktree remove --force "$wt" 2>/dev/null; }
trap cleanup EXIT
cd "$wt" || exit 2
if ! git apply --check "$patch" 2>/dev/null; then
  if ! patch -p1 -s --dry-run -F3 < "$patch" >/dev/null 2>&1; then echo "PATCH DOES NOT APPLY"; exit 3; fi
  patch -p1 -s -F3 --no-backup-if-mismatch < "$patch"
else
  git apply "$patch"
fi
for id in "$@"; do
  (cd /verif && VERIF_REPO="$wt" timeout 1800 ./check "$id" --tier quick --no-evidence 2>&1 | grep -E "^(VIOLATION|KNOWN|HARNESS|C[0-9]+ tier|  bucket)" | cut -c1-220 | head -8; echo "  -> $id exit=${PIPESTATUS[0]}")
done
