#!/bin/bash
# try_mutant.sh <patch.diff> <check id> [more ids...]  - apply to /repo, run quick checks, always revert.
patch="$1"; shift
cd /repo || exit 2
if [ -n "$(git status --porcelain -- icontract)" ]; then echo "repo dirty"; exit 2; fi
if ! git apply --check "$patch" 2>/dev/null; then
  if ! patch -p1 -s --dry-run -F3 < "$patch" >/dev/null 2>&1; then echo "PATCH DOES NOT APPLY"; exit 3; fi
  patch -p1 -s -F3 --no-backup-if-mismatch < "$patch"
else
  git apply "$patch"
fi
for id in "$@"; do
  (cd /verif && timeout 1800 ./check "$id" --tier quick --no-evidence 2>&1 | grep -E "^(VIOLATION|KNOWN|HARNESS|C[0-9]+ tier|  bucket)" | cut -c1-220 | head -8; echo "  -> $id exit=${PIPESTATUS[0]}")
done
git checkout -- . ; git clean -fdq icontract; git status --porcelain | head -3
