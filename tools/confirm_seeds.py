#!/venv/bin/python
"""confirm_seeds.py [names...]: validate every seeded/_incoming/<name> in a scratch worktree of /repo's HEAD and store it as
seeded/<name>/ (patch.diff, demo.py, meta.json)."""
import json, os, re, shutil, subprocess, sys
root = "/verif/seeded"
inc = os.path.join(root, "_incoming")
names = sys.argv[1:] or sorted(os.listdir(inc))
head = subprocess.run(["git", "-C", "/repo", "rev-parse", "--short", "HEAD"], capture_output=True, text=True).stdout.strip()
for name in names:
    d = os.path.join(inc, name)
    if not os.path.isdir(d):
        d = os.path.join(root, name)  # re-confirm an already stored seed against the current checks
    prop = name.split("-")[0]
    mp0 = os.path.join(d, "meta.json")
    if os.path.exists(mp0) and json.load(open(mp0)).get("obsolete"):
        print("==", name, "(obsolete, skipped)")
        continue
    extra = []
    mp = os.path.join(d, "checks.txt")
    checks = [prop] + (open(mp).read().split() if os.path.exists(mp) else [])
    out = subprocess.run(["/verif/tools/validate_seed.sh", d] + checks, capture_output=True, text=True).stdout
    print("==", name); print(out)
    ok_without = "demo without change: exit=0" in out
    ok_with = re.search(r"demo with change:\s+exit=[1-9]", out) is not None
    tests = re.search(r"tests with change:\s+(.*)", out)
    caught = {m.group(1): int(m.group(2)) for m in re.finditer(r"check (C\d+): exit=(\d+)", out)}
    buckets = {m.group(1): m.group(2).strip() for m in re.finditer(r"check (C\d+): exit=\d+; (.*)", out)}
    agent = {}
    if os.path.exists(os.path.join(d, "meta.json")):
        try:
            agent = json.load(open(os.path.join(d, "meta.json")))
        except Exception:
            agent = {}
    meta = {
        "property": prop,
        "summary": agent.get("summary", ""),
        "needs_to_manifest": agent.get("needs", ""),
        "files": agent.get("files", []),
        "origin": agent.get("origin", "independent sub-agent given only the property text and a scratch worktree"),
        "confirmed_by_me": {
            "repo_head": head,
            "ran": "tools/validate_seed.sh: scratch worktree of /repo HEAD; demo.py without/with patch; full pytest suite with patch; ./check <id> --tier quick with VERIF_REPO=<worktree>",
            "demo_passes_without_change": ok_without,
            "demo_fails_with_change": ok_with,
            "test_suite_with_change": tests.group(1) if tests else None,
            "quick_check_exit_codes": caught,
            "first_buckets": buckets,
        },
        "caught_by": sorted(k for k, v in caught.items() if v == 1),
    }
    dst = os.path.join(root, name)
    os.makedirs(dst, exist_ok=True)
    if os.path.abspath(d) != os.path.abspath(dst):
        for f in ("patch.diff", "demo.py"):
            shutil.copy(os.path.join(d, f), os.path.join(dst, f))
    else:
        old_meta = json.load(open(os.path.join(dst, "meta.json")))
        for k in ("summary", "needs_to_manifest", "files", "origin"):
            meta[k] = old_meta.get(k, meta[k])
        for k in ("history", "round", "robust"):
            if k in old_meta:
                meta[k] = old_meta[k]
    json.dump(meta, open(os.path.join(dst, "meta.json"), "w"), indent=1)
    if ok_without and ok_with and tests and "358 passed" in tests.group(1):
        if os.path.abspath(d) != os.path.abspath(dst):
            shutil.rmtree(d)
    else:
        print("!! NOT CONFIRMED:", name)
