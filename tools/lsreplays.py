#!/venv/bin/python
import json, glob, sys
for f in sorted(glob.glob('/verif/replays/*.json')):
    b = json.load(open(f)); c = b['case']
    print(f.split('/')[-1], '|', b['bucket'][:70], '|', (c.get('final_text') or c.get('text') or '')[:90], '|', c.get('role',''), c.get('directed',''))
