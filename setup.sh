#!/bin/bash
# setup_cmd: make sure the third-party modules the checks need are importable in /venv (offline).
set -e
cd "$(dirname "${BASH_SOURCE[0]}")"
PY=/venv/bin/python
if ! $PY -c "import hypothesis" 2>/dev/null; then
  /venv/bin/pip install --no-index --find-links /opt/veriftools/wheels hypothesis
fi
$PY -c "import hypothesis, asttokens; print('hypothesis', hypothesis.__version__)"
# optional: the coverage-guided stage of the thorough tier of C06/C07 (vf/fuzz.py); skipped with a note if this fails
if [ ! -d .deps/atheris ]; then
  /venv/bin/pip install -q --no-index --find-links /opt/veriftools/wheels --target .deps atheris >/dev/null 2>&1 || echo "atheris not installed; thorough tiers skip the coverage-guided stage"
fi
mkdir -p evidence replays
chmod +x check
