#!/bin/bash
# setup_cmd: make sure the third-party modules the checks need are importable in /venv (offline).
set -e
cd "$(dirname "${BASH_SOURCE[0]}")"
PY=/venv/bin/python
if ! $PY -c "import hypothesis" 2>/dev/null; then
  /venv/bin/pip install --no-index --find-links /opt/veriftools/wheels hypothesis
fi
$PY -c "import hypothesis, asttokens; print('hypothesis', hypothesis.__version__)"
mkdir -p evidence replays
chmod +x check
