"""Coverage-guided booster (DESIGN 3.3): drive the Hypothesis test of an exprgen property through atheris/libFuzzer.

Run as a child process: python -B -m vf.fuzz <C06|C07> <runs> <seed> <dump.json>
atheris.Fuzz() never returns (and atexit does not run), so the collected Ctx is written to <dump.json> periodically
and one last time from a counter inside the fuzz target.
"""
import json
import os
import sys


def main():
    prop, runs, seed, dump = sys.argv[1], int(sys.argv[2]), int(sys.argv[3]), sys.argv[4]
    here = os.path.dirname(os.path.dirname(os.path.abspath(__file__)))
    sys.path.insert(0, os.path.join(here, ".deps"))
    repo = os.path.abspath(os.environ.get("VERIF_REPO", "/repo"))
    sys.path.insert(0, repo)
    import atheris

    with atheris.instrument_imports(include=["icontract"]):
        import icontract  # noqa
    if not os.path.abspath(icontract.__file__).startswith(repo + os.sep):
        print("icontract imported from %s" % icontract.__file__, file=sys.stderr)
        sys.exit(2)
    import importlib

    from hypothesis import given, settings, HealthCheck
    from vf import core

    mod = importlib.import_module("vf.props.%s" % prop.lower())
    ctx = core.Ctx(prop.upper(), "thorough", seed)
    state = {"n": 0}

    @settings(database=None, deadline=None, suppress_health_check=list(HealthCheck))
    @given(mod.st_case("thorough"))
    def test(case):
        mod.check_case(ctx, case)

    def target(data):
        state["n"] += 1
        try:
            test.hypothesis.fuzz_one_input(data)
        except core.HarnessError:
            raise
        if state["n"] % 500 == 0 or state["n"] >= runs:
            ctx.extra["atheris_executions"] = state["n"]
            tmp = dump + ".tmp"
            with open(tmp, "w") as fh:
                json.dump(ctx.dump(), fh, default=str)
            os.replace(tmp, dump)

    corpus = dump + ".corpus"
    os.makedirs(corpus, exist_ok=True)
    import random

    rnd = random.Random(seed)  # starting corpus only: byte strings long enough for the strategy to complete a draw
    for i in range(32):
        with open(os.path.join(corpus, "seed%02d" % i), "wb") as fh:
            fh.write(rnd.randbytes(rnd.choice([200, 600, 1500, 3000])))
    atheris.Setup([sys.argv[0], "-runs=%d" % runs, "-seed=%d" % (seed % (2 ** 31) or 1), "-max_len=4096", "-len_control=0", "-verbosity=0",
                   corpus], target)
    atheris.Fuzz()


if __name__ == "__main__":
    main()
