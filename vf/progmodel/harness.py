"""Run a generated case against icontract and against the reference model; produce comparable observations."""
from vf import core
from vf.progmodel import ref as REF
from vf.progmodel import run as RUN
from vf.progmodel import render as RENDER


class CaseResult:
    def __init__(self):
        self.def_mismatch = []  # [(name, expected, real)]
        self.real_log = []
        self.ref_log = []
        self.real_outs = []
        self.ref_outs = []
        self.ops = []
        self.text = ""
        self.ref = None


def norm_recv(recv):
    return {k: (dict(v) if isinstance(v, dict) else v) for k, v in recv.items()}


def norm_event(e):
    t = (e[0], e[1], norm_recv(e[2]) if len(e) > 2 and isinstance(e[2], dict) else (e[2] if len(e) > 2 else None))
    if len(e) > 3:
        t = t + (e[3],)
    return t


def is_opt(e):
    return len(e) > 3 and e[3] == "opt"


def traces_match(ref, real):
    """ref may contain optional events (4th element 'opt'): each may or may not occur in real."""
    import sys

    memo = {}

    def go(i, j):
        key = (i, j)
        if key in memo:
            return memo[key]
        if i == len(ref):
            r = j == len(real)
        elif is_opt(ref[i]):
            r = (j < len(real) and real[j] == ref[i][:3] and go(i + 1, j + 1)) or go(i + 1, j)
        else:
            r = j < len(real) and real[j] == ref[i] and go(i + 1, j + 1)
        memo[key] = r
        return r

    if len(ref) + len(real) > 200:
        # iterative fallback for long traces: optional events are rare there, compare greedily both ways
        core_ref = strip_opt(ref)
        return list(core_ref) == list(real) or [e[:3] for e in ref] == list(real) or _match_iter(ref, real)
    return go(0, 0)


def _match_iter(ref, real):
    """Breadth-first matching without recursion."""
    states = {(0, 0)}
    while states:
        nxt = set()
        for i, j in states:
            if i == len(ref):
                if j == len(real):
                    return True
                continue
            if is_opt(ref[i]):
                nxt.add((i + 1, j))
                if j < len(real) and real[j] == ref[i][:3]:
                    nxt.add((i + 1, j + 1))
            elif j < len(real) and real[j] == ref[i]:
                nxt.add((i + 1, j + 1))
        states = nxt
    return False


def strip_opt(ref):
    return [e for e in ref if not is_opt(e)]


def outcome_matches(ref_out, real_out):
    """ref_out / real_out: ('ret', desc, mark) | ('exc', what, mark)."""
    if ref_out[0] != real_out[0]:
        return False
    if ref_out[0] == "skip":
        return True
    a, b = ref_out[1], real_out[1]
    if ref_out[0] == "ret":
        return a == b
    if a[0] == "valueerror":
        return b[0] == "other" and b[1] == "ValueError"
    if a[0] == "typeerror":
        return b[0] == "typeerror" and all(repr(n) in b[1] for n in a[1])
    if a[0] == "tok" and b[0] == "tok" and a[1].startswith("err") and b[1].startswith("err"):
        # factory errors: the counter suffix depends on optional earlier factory calls
        return a[1].rsplit(".", 1)[0] == b[1].rsplit(".", 1)[0]
    return tuple(a) == tuple(b)


def definitions(model, loaded):
    """Compare definition-time outcomes. Returns (mismatches, defined_class_indices)."""
    mism = []
    ok = set()
    for ci, c in enumerate(model.classes):
        exp = model.def_error.get(ci)
        real = loaded.errors.get(c["name"])
        if exp == "dep":
            continue
        if exp is None:
            if real is not None:
                mism.append((c["name"], "defined", "%s: %s" % (type(real).__name__, str(real)[:200])))
            else:
                ok.add(ci)
        else:
            if real is None:
                mism.append((c["name"], "%s (%s)" % (exp.kind, exp), "defined"))
            elif type(real).__name__ != exp.kind:
                mism.append((c["name"], "%s (%s)" % (exp.kind, exp), "%s: %s" % (type(real).__name__, str(real)[:200])))
    for f in model.p.get("funcs", []):
        exp = model.def_error.get(("f", f["name"]))
        real = loaded.errors.get(f["name"])
        if exp is None and real is not None:
            mism.append((f["name"], "defined", "%s: %s" % (type(real).__name__, str(real)[:200])))
        elif exp is not None and real is None:
            mism.append((f["name"], "%s (%s)" % (exp.kind, exp), "defined"))
        elif exp is not None and type(real).__name__ != exp.kind:
            mism.append((f["name"], "%s (%s)" % (exp.kind, exp), "%s: %s" % (type(real).__name__, str(real)[:200])))
    return mism, ok


def op_classes(model, op, inst_cls):
    if op["op"] == "new":
        return op["cls"]
    if "k" in op:
        return inst_cls.get(op["k"])
    return None


def run_case(program, ops, truth, model=None, loaded=None, hooks=None, scripts=None, ref_kw=None, fresh_thread=True,
             event_budget=20000, fuel=0, stack_mb=None):
    """Execute ``ops`` for real and in the reference. Ops touching undefined classes are dropped."""
    res = CaseResult()
    own_loaded = loaded is None
    if model is None:
        model = REF.Model(program, **{k: v for k, v in (ref_kw or {}).items() if k == "liskov_unconstrained_base"})
    if loaded is None:
        loaded = RUN.Loaded(program)
    try:
        res.text = loaded.text
        res.def_mismatch, ok = definitions(model, loaded)
        if res.def_mismatch:
            return res
        inst_cls = {}
        live = []
        for op in ops:
            ci = op_classes(model, op, inst_cls)
            if op["op"] == "new":
                if ci in ok:
                    inst_cls[op["k"]] = ci
                    live.append(op)
                continue
            if "k" in op and op["k"] not in inst_cls:
                continue
            if op["op"] == "callf" and model.def_error.get(("f", op["f"])) is not None:
                continue
            live.append(op)
        res.ops = live
        rk = {k: v for k, v in (ref_kw or {}).items() if k != "liskov_unconstrained_base"}
        res.ref_log, res.ref_outs, res.ref = REF.run_ops(model, live, truth, scripts=scripts, fuel=fuel, **rk)

        def go():
            return RUN.execute(loaded, live, truth, hooks=hooks, event_budget=event_budget, scripts=scripts, fuel=fuel)

        if fresh_thread:
            res.real_log, res.real_outs, res.run = core.in_fresh_thread(go, stack_mb=stack_mb)
        else:
            res.real_log, res.real_outs, res.run = go()
        res.loaded = loaded
        res.real_log = [norm_event(e) for e in res.real_log]
        res.ref_log = [norm_event(e) for e in res.ref_log]
        return res
    finally:
        if own_loaded:
            loaded.close()


def segment(log, outs, i):
    start = outs[i][2]
    end = outs[i + 1][2] if i + 1 < len(outs) else len(log)
    return log[start:end]


def first_diff(a, b):
    for i, (x, y) in enumerate(zip(a, b)):
        if x != y:
            return i, x, y
    if len(a) != len(b):
        i = min(len(a), len(b))
        return i, (a[i] if i < len(a) else None), (b[i] if i < len(b) else None)
    return None


def fmt_trace(log, limit=40):
    return "\n".join("    %r" % (e,) for e in log[:limit]) + ("\n    ..." if len(log) > limit else "")
