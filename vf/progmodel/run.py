"""Load a rendered program and execute operations on it, observing outcome and events (DESIGN 3.1)."""
import atexit
import hashlib
import itertools
import linecache
import os
import re
import shutil
import sys
import tempfile
import types

from vf import vrt
from vf.vrt import V
from vf.progmodel import render as R

_scratch = None
_counter = itertools.count()


def scratch_dir():
    global _scratch
    if _scratch is None:
        _scratch = tempfile.mkdtemp(prefix="vf_prog_")
        atexit.register(shutil.rmtree, _scratch, True)
    return _scratch


class Loaded:
    """A program imported block by block; ``errors[name]`` is what defining that block raised."""

    def __init__(self, program, text_blocks=None, on_block=None):
        self.program = program
        text, blocks = text_blocks if text_blocks is not None else R.render(program)
        self.text = text
        h = hashlib.sha1(text.encode()).hexdigest()[:10]
        self.modname = "vfprog_%s_%d" % (h, next(_counter))
        self.path = os.path.join(scratch_dir(), self.modname + ".py")
        with open(self.path, "w") as fh:
            fh.write(text)
        self.mod = types.ModuleType(self.modname)
        self.mod.__file__ = self.path
        sys.modules[self.modname] = self.mod
        self.errors = {}
        for name, first, src in blocks:
            try:
                code = compile("\n" * (first - 1) + src, self.path, "exec")
                exec(code, self.mod.__dict__)
                self.errors[name] = None
                if on_block is not None:
                    on_block(self, name)
            except BaseException as e:  # noqa - definition-time outcome is an observation
                self.errors[name] = e
                if name.startswith("<"):
                    raise

    def close(self):
        sys.modules.pop(self.modname, None)
        linecache.cache.pop(self.path, None)
        try:
            os.unlink(self.path)
        except OSError:
            pass

    def __enter__(self):
        return self

    def __exit__(self, *a):
        self.close()


class Closed:
    """Outcome marker: the harness closed the coroutine at a gate."""


def drive(coro, actions=None):
    """Run a coroutine. It only suspends at harness gates (vrt.Yield); ``actions`` maps the gate tag to what
    the driver does there: None/absent = resume, ("throw", exc) = throw exc into it, ("close",) = close it."""
    try:
        y = coro.send(None)
        while True:
            act = (actions or {}).pop(y, None) if isinstance(y, tuple) else None
            if isinstance(y, tuple) and y and y[0] == "gate":
                if act is None:
                    y = coro.send(None)
                elif act[0] == "throw":
                    y = coro.throw(act[1])
                elif act[0] == "close":
                    coro.close()
                    return Closed
                else:
                    raise RuntimeError("vf: unknown gate action %r" % (act,))
            else:
                coro.close()
                raise RuntimeError("vf: coroutine suspended unexpectedly on %r" % (y,))
    except StopIteration as e:
        return e.value


_VIOL_RE = re.compile(r"#(\d+):")


def classify_exc(loaded, run, e):
    import icontract

    lab = run.label_of(e)
    if lab is not None:
        return ("tok", lab)
    for name, val in loaded.mod.__dict__.items():
        if name.startswith("EI_") and val is e:
            return ("inst", int(name[3:]))
    if type(e) is icontract.ViolationError:
        m = _VIOL_RE.search(str(e))
        return ("viol", int(m.group(1)) if m else None)
    if type(e) in (vrt.ErrA, vrt.ErrB):
        m = _VIOL_RE.search(str(e.args[0]) if e.args else "")
        return ("cls", type(e).__name__, int(m.group(1)) if m else None)
    if isinstance(e, TypeError):
        return ("typeerror", str(e)[:300])
    return ("other", type(e).__name__, str(e)[:300])


def describe_ret(run, v):
    if v is Closed:
        return "closed"
    lab = run.label_of(v)
    if lab is not None:
        return lab
    return type(v).__name__


class ReprBomb:
    """Argument whose __repr__ raises the armed fault (C11: failing value repr during message building)."""

    def __init__(self, run):
        self._run = run

    def __repr__(self):
        h = self._run.hooks.get(("repr", "arg"))
        if h is not None:
            h(self._run, {})
        return "<bomb>"


class Executor:
    """Executes ops against a Loaded program under a vrt.Run."""

    def __init__(self, loaded, run):
        self.l = loaded
        self.run = run
        self.inst = {}

    def arg_objects(self, op):
        """Create the argument tokens for an op; labels are the strings found in op['args']."""
        out = {}
        for p, label in (op.get("args") or {}).items():
            if label.startswith("bomb:"):
                out[p] = self.run.tok(label, lambda: ReprBomb(self.run))
            elif label.startswith("list:"):
                out[p] = self.run.tok(label, lambda: ["orig"])
            else:
                out[p] = self.run.tok(label)
        return out

    def do(self, op):
        """Returns ('ret', description) or ('exc', classification); never raises for program outcomes."""
        run = self.run
        mark = len(run.log)
        self.opno = getattr(self, "opno", -1) + 1
        run.opno = self.opno
        if op["op"] != "new" and "k" in op and op["k"] not in self.inst:
            return ("skip", None, mark)
        for key in [k for k in run.counts if isinstance(k, int)]:
            del run.counts[key]
        if op.get("truth"):
            run.truth.update({int(k): v for k, v in op["truth"].items()})
        try:
            v = self._do(op)
            return ("ret", describe_ret(run, v) if op["op"] != "new" else "inst", mark)
        except BaseException as e:  # noqa
            run.exceptions.append((self.opno, e))
            if isinstance(e, RecursionError) and run.label_of(e) is None:
                return ("exc", ("nonterminating", str(e)[:100]), mark)
            return ("exc", classify_exc(self.l, run, e), mark)

    def _finish(self, v):
        import inspect

        if inspect.iscoroutine(v):
            return drive(v, getattr(self.run, "gate_actions", None))
        return v

    def _do(self, op):
        t = op["op"]
        mod = self.l.mod
        kw = self.arg_objects(op)
        pos = [kw.pop(p) for p in op.get("positional", []) if p in kw]
        if t == "callf":
            return self._finish(getattr(mod, op["f"])(*pos, **kw))
        if t == "new":
            cls = getattr(mod, self.l.program["classes"][op["cls"]]["name"])
            o = cls(*pos, **kw)
            self.inst[op["k"]] = o
            return o
        o = self.inst[op["k"]]
        if t == "call":
            if op.get("unbound_kw") and not pos:
                # the function taken from the class, `self` passed by keyword: K.m(self=o, x=...)
                return self._finish(getattr(type(o), op.get("as", op["m"]))(self=o, **kw))
            return self._finish(getattr(o, op.get("as", op["m"]))(*pos, **kw))
        if t == "read":
            o.__class__  # an attribute read (goes through a Python-defined __getattribute__ if there is one)
            return 0
        if t == "get":
            return getattr(o, op["m"])
        if t == "set":
            setattr(o, op["m"], kw.get("value", pos[0] if pos else None))
            return None
        if t == "del":
            delattr(o, op["m"])
            return None
        if t == "setattr":
            setattr(o, op.get("attr", "plain"), 1)
            return None
        if t == "repr":
            return repr(o)
        raise ValueError(op)


def _script_hook(ex, key, steps):
    """Scripts: calls made by a condition / capture / error factory / body (DESIGN 3.1.5)."""

    def hook(run, kw):
        for step in steps:
            if key[0] == "body":
                if run.fuel <= 0:
                    return
                run.fuel -= 1
            try:
                ex._do(step)
            except RecursionError:
                raise
            except Exception:  # noqa - scripts swallow what their calls raise (the reference does the same)
                pass

    return hook


def execute(loaded, ops, truth, hooks=None, bodies=None, event_budget=20000, scripts=None, fuel=0):
    """Run ops in the *current* thread under a fresh vrt.Run. Returns (log, outcomes, run)."""
    run = vrt.Run(truth={int(k) if not isinstance(k, int) else k: v for k, v in truth.items()},
                  bodies=bodies, event_budget=event_budget)
    if hooks:
        run.hooks.update(hooks)
    V.begin(run)
    try:
        ex = Executor(loaded, run)
        if scripts:
            run.fuel = fuel
            for key, steps in scripts.items():
                run.hooks[tuple(key)] = _script_hook(ex, tuple(key), steps)
        outs = [ex.do(op) for op in ops]
        run.instances = ex.inst
        try:
            import icontract._checkers as _CK

            var = getattr(_CK, "_IN_PROGRESS", None)
            run.in_progress_after = None if var is None else set(var.get() or ())
        except Exception:  # noqa - secondary observation only
            run.in_progress_after = None
    finally:
        V.end()
    return run.log, outs, run
