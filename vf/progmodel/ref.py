"""Reference interpreter (DESIGN 3.1.4/3.1.5): a transcription of the property statements C01-C04, C08, C10, C16.

It knows nothing about icontract's code. Given a program (IR), an operation sequence and a truth table it yields
the expected event trace and the expected outcome of every operation.
"""
from vf.vrt import is_truthy


class RefInconsistency(Exception):
    """The reference model cannot interpret the case (generator bug) -> harness error."""


class DefError(Exception):
    """Expected definition-time rejection."""

    def __init__(self, kind, why):
        super().__init__(why)
        self.kind = kind


def c3_merge(seqs):
    res = []
    seqs = [list(s) for s in seqs if s]
    while seqs:
        for s in seqs:
            cand = s[0]
            if not any(cand in t[1:] for t in seqs):
                break
        else:
            return None
        res.append(cand)
        seqs = [[x for x in t if x != cand] for t in seqs]
        seqs = [t for t in seqs if t]
    return res


ACCESSOR = {"getter": "get", "setter": "set", "deleter": "del"}


def member_key(f):
    k = f["kind"]
    if k in ACCESSOR:
        return (f["name"], ACCESSOR[k])
    if k == "init":
        return ("__init__", "f")
    if k == "new":
        return ("__new__", "f")
    if k == "repr":
        return ("__repr__", "f")
    if k == "pysetattr":
        return ("__setattr__", "f")
    if k == "getattribute":
        return ("__getattribute__", "f")
    return (f["name"], "f")


def own_contracts(f):
    decos = f.get("decos", [])
    pre = [d for d in reversed(decos) if d["t"] == "require" and d.get("enabled") is not False]
    post = [d for d in reversed(decos) if d["t"] == "ensure" and d.get("enabled") is not False]
    snaps = [d for d in reversed(decos) if d["t"] == "snapshot" and d.get("enabled") is not False]
    return pre, post, snaps


def snap_name(d):
    if d.get("name") is not None:
        return d["name"]
    return d["args"][0]


class Model:
    """Static semantics: MROs, effective contracts, invariants, expected definition errors."""

    def __init__(self, program, liskov_unconstrained_base=True):
        self.p = program
        self.classes = program.get("classes", [])
        self.funcs = {f["name"]: f for f in program.get("funcs", [])}
        self.mro = {}
        self.def_error = {}  # ci -> DefError | "dep"
        self.eff_cache = {}
        self.liskov_unconstrained_base = liskov_unconstrained_base
        for ci, c in enumerate(self.classes):
            bases = c.get("bases", [])
            m = c3_merge([self.mro[b] for b in bases] + [list(bases)]) if bases else []
            if m is None:
                raise RefInconsistency("MRO conflict for %s" % c["name"])
            self.mro[ci] = [ci] + m
        for ci in range(len(self.classes)):
            self._define(ci)
        for f in program.get("funcs", []):
            try:
                self._check_own(f, has_inherited_post=False)
                self.def_error[("f", f["name"])] = None
            except DefError as e:
                self.def_error[("f", f["name"])] = e

    # ---- class facts ---------------------------------------------------------
    def is_dbc(self, ci):
        return any(self.classes[k].get("root", "DBC") in ("DBC", "meta") and not self.classes[k].get("bases")
                   for k in self.mro[ci])

    def members(self, ci):
        return {member_key(f): f for f in self.classes[ci].get("members", [])}

    def provider(self, ci, key):
        for k in self.mro[ci]:
            if key in self.members(k):
                return k
        return None

    def _check_own(self, f, has_inherited_post):
        """Definition-time validation of a single decorated function (C08/C19 clauses)."""
        decos = f.get("decos", [])
        seen_post = False
        seen_any_checker = False
        names = set()
        for d in reversed(decos):  # application order
            if d.get("enabled") is False:
                continue
            if d["t"] == "ensure":
                seen_post = True
                seen_any_checker = True
            elif d["t"] == "require":
                seen_any_checker = True
            elif d["t"] == "snapshot":
                if d.get("name") is None and len(d.get("args", [])) != 1:
                    raise DefError("ValueError", "unnamed snapshot with %d parameters" % len(d.get("args", [])))
                if not seen_post:
                    raise DefError("ValueError", "snapshot not preceded by a postcondition")
                n = snap_name(d)
                if n in names:
                    raise DefError("ValueError", "duplicate snapshot name %r" % n)
                names.add(n)

    def _define(self, ci):
        c = self.classes[ci]
        for b in c.get("bases", []):
            if self.def_error.get(b) is not None:
                self.def_error[ci] = "dep"
                return
        try:
            for f in c.get("members", []):
                self._check_own(f, False)
                self.eff(ci, member_key(f))
            self.def_error[ci] = None
        except DefError as e:
            self.def_error[ci] = "dep" if getattr(e, "unspecified", False) else e

    def eff(self, ci, key):
        """Effective contracts of member ``key`` as seen on class ``ci``:
        dict(pre=[groups], post=[...], snaps=[...], func=FuncSpec, owner=ci) or None if not provided."""
        ck = (ci, key)
        if ck in self.eff_cache:
            return self.eff_cache[ck]
        members = self.members(ci)
        if key[1] in ("get", "set", "del"):
            # a property is ONE object: the first class in the MRO that defines any accessor of that name provides all
            # of them; an accessor it neither defines nor takes over from the property it extends does not exist
            holder = next((k for k in self.mro[ci] if any(n == key[0] for n, _ in self.members(k))), None)
            if holder is None:
                self.eff_cache[ck] = None
                return None
            if holder != ci:
                res = self.eff(holder, key)
                self.eff_cache[ck] = res
                return res
            if key not in members:
                ext = [f.get("extends") for (n, _), f in members.items() if n == key[0] and f.get("extends") is not None]
                # `@K<owner>.p.setter`: the other accessors are the owner's own function objects, contracts included
                res = self.eff(ext[0], key) if ext else None
                self.eff_cache[ck] = res
                return res
        if key not in members:
            prov = self.provider(ci, key)
            res = None if prov is None else self.eff(prov, key)
            self.eff_cache[ck] = res
            return res
        f = members[key]
        own_pre, own_post, own_snaps = own_contracts(f)
        c = self.classes[ci]
        base_pre, base_post, base_snaps = [], [], []
        bases_have = False
        accept_all = False
        if self.is_dbc(ci) and key[0] not in ("__init__", "__new__"):
            for b in c.get("bases", []):
                e = self.eff(b, key)
                if e is None:
                    continue
                bases_have = True
                if not e["pre"]:
                    accept_all = True
                base_pre += e["pre"]
                base_post += e["post"]
                base_snaps += e["snaps"]
        if accept_all and self.liskov_unconstrained_base:
            # "an ancestor that provides the method with no precondition at all makes it accept every call"
            base_pre = []
        if bases_have and not base_pre and own_pre:
            raise DefError("TypeError", "preconditions added to a method whose ancestors declare none")
        snaps = base_snaps + own_snaps
        seen = {}
        for s in snaps:
            n = snap_name(s)
            if n in seen:
                e = DefError("ValueError", "duplicate snapshot name %r in hierarchy" % n)
                # the very same snapshot reached along two paths of a diamond: neither demanded nor forbidden
                e.unspecified = seen[n] == s["sid"]
                raise e
            seen[n] = s["sid"]
        res = {"pre": base_pre + ([own_pre] if own_pre else []), "post": base_post + own_post, "snaps": snaps,
               "func": f, "owner": ci}
        self.eff_cache[ck] = res
        return res

    def eff_func(self, name):
        f = self.funcs[name]
        own_pre, own_post, own_snaps = own_contracts(f)
        return {"pre": [own_pre] if own_pre else [], "post": own_post, "snaps": own_snaps, "func": f, "owner": None}

    def invariants(self, ci):
        """Invariants an instance of class ci must satisfy: bases' (in base order) then own (application order)."""
        c = self.classes[ci]
        out = []
        if self.is_dbc(ci):
            for b in c.get("bases", []):
                out += self.invariants(b)
        elif c.get("bases"):
            # plain inheritance: documented as not inheriting contracts; generators do not go there with invariants
            for b in c.get("bases", []):
                out += self.invariants(b)
        out += [i for i in c.get("invs", []) if i.get("enabled") is not False]
        return out

    def has_init(self, ci):
        return self.provider(ci, ("__init__", "f")) is not None or any(
            self.classes[k].get("shape") == "dataclass" for k in self.mro[ci])


def is_public(name):
    if name.startswith("__") and name.endswith("__"):
        return name not in ("__repr__", "__getattribute__", "__new__", "__init__")
    return not name.startswith("_")


class Ref:
    """Dynamic semantics. One instance per run; ``ops`` are executed in order."""

    def __init__(self, model, truth, hold_marker_during_body=False, event_budget=5000):
        self.m = model
        self.truth = truth
        self.counts = {}
        self.log = []
        self.S = set()
        self.inst = {}  # k -> class index
        self.constructed = set()
        self.depth = 0
        self.max_depth = 0
        self.event_budget = event_budget
        self.hold_marker_during_body = hold_marker_during_body
        self.scripts = {}  # ("cond", cid) / ("body", qual) / ("cap", sid) / ("err", cid) -> [ops]
        self.body_specs = {}
        self.tokn = {}
        self.cur_async = False
        self.fuel = 0
        self.constructing = set()

    # ---- plumbing ----------------------------------------------------------
    def ev(self, e):
        self.log.append(e)
        if len(self.log) > self.event_budget:
            raise RefInconsistency("reference run exceeds the event budget")

    def tok(self, prefix, key):
        n = self.tokn.get((prefix, key), 0)
        self.tokn[(prefix, key)] = n + 1
        return "%s%s.%d" % (prefix, key, n)

    def truth_of(self, cid):
        n = self.counts.get(cid, 0)
        self.counts[cid] = n + 1
        seq = self.truth.get(cid) or self.truth.get(str(cid)) or ["T"]
        return seq[n] if n < len(seq) else seq[-1]

    def run_script(self, key, env):
        for op in self.scripts.get(key, []):
            if key[0] == "body":
                if self.fuel <= 0:
                    return
                self.fuel -= 1
            try:
                self.do(op, env)
            except Outcome as o:
                if o.base:
                    raise  # the hooks swallow Exceptions only
                pass  # scripts swallow what their calls raise (the hooks do the same)

    # ---- violations -------------------------------------------------------------
    def violation(self, role, d, env):
        form = (d.get("err") or {"form": "default"})["form"]
        cid = d["cid"]
        if form in ("default", "class", "baseclass"):
            if d.get("lam"):
                # documented: a violated lambda condition is re-evaluated once to build the message
                self.cond(role, d, env, reeval=True)
            if form == "default":
                raise Outcome(("viol", cid))
            raise Outcome(("cls", "ErrA" if form == "class" else "ErrB", cid), base=(form == "baseclass"))
        if form == "instance":
            raise Outcome(("inst", cid))
        args = (d.get("err") or {}).get("args", [])
        missing = [a for a in args if a not in env]
        if missing:
            raise Outcome(("typeerror", tuple(missing)))
        recv = self.recv(args, env)
        self.ev(("err", cid, recv))
        self.run_script(("err", cid), env)
        # vrt.V.err: every third factory returns an exception deriving from BaseException only (scripts do not swallow it)
        raise Outcome(("tok", self.tok("err", cid)), base=(cid % 3 == 0))

    def failed_alternative(self, d, env):
        form = (d.get("err") or {"form": "default"})["form"]
        if form in ("default", "class", "baseclass"):
            if d.get("lam"):
                self.ev(("pre", d["cid"], {a: env[a] for a in d.get("args", [])}, "opt"))
        elif form != "instance":
            args = (d.get("err") or {}).get("args", [])
            if all(a in env for a in args):
                self.ev(("err", d["cid"], {a: env[a] for a in args}, "opt"))
            else:
                # misuse (the factory names a value the call does not provide): reported when the error of the
                # failed alternative is built; the statements leave the moment open, the library does it here
                raise Outcome(("typeerror", tuple(a for a in args if a not in env)))

    def recv(self, args, env):
        out = {}
        for a in args:
            if a not in env:
                raise MissingArg(a)
            out[a] = env[a]
        return out

    def cond(self, role, d, env, reeval=False):
        args = d.get("args", [])
        missing = [a for a in args if a not in env]
        if missing:
            raise Outcome(("typeerror", tuple(missing)))
        if d.get("flavor") in ("corofunc", "ret_coro", "gated") and not self.cur_async:
            # C13: a coroutine condition on a sync callable is rejected, never taken as truthy
            raise Outcome(("valueerror",))
        if reeval:
            # optional: the re-evaluator may skip the call (e.g. when an argument is None)
            self.ev((role, d["cid"], {a: env[a] for a in args}, "opt"))
            return False
        self.ev((role, d["cid"], {a: env[a] for a in args}))
        self.run_script(("cond", d["cid"]), env)
        code = self.truth_of(d["cid"])
        return is_truthy(code)

    # ---- function-level contracts (C01, C02, C08, C16) -------------------------
    def checked_call(self, eff, fkey, qual, env, body):
        """fkey identifies the underlying function for the suspension set S."""
        if fkey in self.S:
            return body()
        self.S.add(fkey)
        saved_async = self.cur_async
        self.cur_async = bool(eff["func"].get("async"))
        try:
            return self._checked_call(eff, fkey, qual, env, body)
        finally:
            self.cur_async = saved_async
            self.S.discard(fkey)

    def _checked_call(self, eff, fkey, qual, env, body):
        try:
            # preconditions: groups are alternatives, conditions in a group conjoined
            err = None
            ok = not eff["pre"]
            for gi, group in enumerate(eff["pre"]):
                err = None
                for d in group:
                    if not self.cond("pre", d, env):
                        err = d
                        break
                if err is None:
                    ok = True
                    break
                if gi + 1 < len(eff["pre"]):
                    # a failed alternative: building its error (message re-evaluation / factory call) is
                    # neither demanded nor forbidden by the statements -> optional events
                    self.failed_alternative(err, env)
            if not ok:
                self.violation("pre", err, env)
            env2 = dict(env)
            if eff["post"] and eff["snaps"]:
                old = {}
                for s in eff["snaps"]:
                    missing = [a for a in s.get("args", []) if a not in env]
                    if s.get("flavor") in ("corofunc", "ret_coro", "gated") and not self.cur_async:
                        raise Outcome(("valueerror",))
                    if missing:
                        raise Outcome(("typeerror", tuple(missing)))
                    self.ev(("cap", s["sid"], {a: env[a] for a in s.get("args", [])}))
                    captured = self.tok("cap", s["sid"])  # numbered when the capture starts, like V.cap does
                    self.run_script(("cap", s["sid"]), env)
                    old[snap_name(s)] = captured
                env2["OLD"] = old
            if not self.hold_marker_during_body:
                self.S.discard(fkey)
            inner_async = self.cur_async
            try:
                res = body()
            finally:
                self.cur_async = inner_async
                self.S.add(fkey)
            if eff["post"]:
                env2["result"] = res
                for d in eff["post"]:
                    if not self.cond("post", d, env2):
                        self.violation("post", d, env2)
            return res
        finally:
            pass

    def body(self, qual, f, env):
        spec = self.body_specs.get(qual, f.get("body") or {"ret": "obj"})
        recv = dict(env)
        self.ev(("body", qual, recv))
        self.run_script(("body", qual), env)
        if "raise" in spec:
            raise Outcome(("tok", self.tok("exc:", qual)), base=spec["raise"] in BASE_KINDS)
        ret = spec.get("ret", "obj")
        n = self.tok("ret:", qual)
        if ret in ("obj", "list", "emptylist"):
            return n
        if ret == "arg":
            return env.get("x", "NoneType")
        return {"None": "NoneType", "0": "int", "''": "str", "False": "bool", "NotImplemented": "NotImplementedType",
                "Ellipsis": "ellipsis"}[ret]

    # ---- invariants (C03) ---------------------------------------------------------
    def check_invs(self, invs, k, env=None):
        for inv in invs:
            d = dict(inv)
            d["args"] = ["self"] if inv.get("selfarg", True) else []
            if not self.cond("inv", d, {"self": "self"}):
                self.violation("inv", d, {"self": "self"})

    def inv_wrapped(self, k, selected, inner):
        okey = ("o", k)
        if okey in self.S:
            return inner()
        self.S.add(okey)
        try:
            self.check_invs(selected, k)
            res = inner()
            self.check_invs(selected, k)
            return res
        finally:
            self.S.discard(okey)

    def selected(self, ci, on):
        return [i for i in self.m.invariants(ci) if on in (("CALL", "SETATTR") if i.get("on", "CALL") == "ALL"
                                                            else (i.get("on", "CALL"),))]

    # ---- operations ------------------------------------------------------------------
    def do(self, op, env=None):
        """Execute one operation; returns the outcome ('ret', x) or raises Outcome."""
        self.depth += 1
        self.max_depth = max(self.max_depth, self.depth)
        try:
            return self._do(op)
        finally:
            self.depth -= 1

    def call_env(self, f, op, extra=None):
        env = {}
        params = f.get("params", [])
        args = op.get("args", {})
        for p in params:
            if p in args:
                env[p] = args[p]
            elif p in f.get("defaults", {}):
                env[p] = "NoneType" if f["defaults"][p] == "None" else f["defaults"][p]
        env["_ARGS"] = "tuple"
        env["_KWARGS"] = "dict"
        if extra:
            env.update(extra)
        return env

    def _do(self, op):
        t = op["op"]
        m = self.m
        if t == "callf":
            f = m.funcs[op["f"]]
            eff = m.eff_func(op["f"])
            env = self.call_env(f, op)
            benv = {p: env[p] for p in f.get("params", []) if p in env}
            return self.checked_call(eff, ("f", op["f"]), op["f"], env, lambda: self.body(op["f"], f, benv))
        if t == "new":
            ci = op["cls"]
            k = op["k"]
            prev = self.inst.get(k)
            self.inst[k] = ci
            if prev is None:
                self.constructing.add(k)  # the variable is bound only once the constructor has returned
            try:
                r = self.construct(ci, k, op)
                self.constructing.discard(k)
                return r
            except Outcome:
                self.constructing.discard(k)
                # `o = K()` raising leaves the variable bound to what it was before
                if prev is None:
                    self.inst.pop(k, None)
                else:
                    self.inst[k] = prev
                raise
        if t != "new" and "k" in op and not op.get("_self") and (
                op["k"] not in self.inst or op["k"] in self.constructing):
            raise Outcome(("noinst",))  # only reachable from scripts, which swallow it (the hook gets a KeyError)
        if t in ("call", "get", "set", "del"):
            k = op["k"]
            ci = self.inst[k]
            if t == "call":
                key = (op["m"], "f")
            else:
                key = (op["m"], t)
            eff = m.eff(ci, key)
            if eff is None:
                raise RefInconsistency("no member %r on class %d" % (key, ci))
            f = eff["func"]
            owner = eff["owner"]
            qual = self.qual(owner, f)
            kind = f["kind"]
            if kind in ("static", "class"):
                env = self.call_env(f, op, {"cls": "cls"} if kind == "class" else None)
                benv = {p: env[p] for p in f.get("params", []) if p in env}
                if kind == "class":
                    benv["cls"] = "cls"
                return self.checked_call(eff, ("m", owner, key), qual, env, lambda: self.body(qual, f, benv))
            env = self.call_env(f, op, {"self": "self"})
            benv = {p: env[p] for p in f.get("params", []) if p in env}
            benv["self"] = "self"

            def inner():
                r = self.checked_call(eff, ("m", owner, key), qual, env, lambda: self.body(qual, f, benv))
                return "NoneType" if t in ("set", "del") else r

            def around_call():
                # ``del obj.attr`` is a call of __delattr__, a public (dunder) method: the invariants are checked around it
                # whatever the attribute is called
                if (is_public(f["name"]) or t == "del") and m.invariants(ci):
                    return self.inv_wrapped(k, self.selected(ci, "CALL"), inner)
                return inner()

            if t == "set":
                py = m.eff(ci, ("__setattr__", "f"))

                def through_setattr():
                    if py is not None:  # a Python-defined __setattr__ runs first and then reaches the property
                        self.ev(("body", self.qual(py["owner"], py["func"]), {"self": "self"}))
                    return around_call()

                if self.selected(ci, "SETATTR"):
                    # attribute-set checking requested: the operation is __setattr__, the setter is nested (suspended)
                    return self.inv_wrapped(k, self.selected(ci, "SETATTR"), through_setattr)
                return through_setattr()
            return around_call()
        if t == "setattr":
            k = op["k"]
            ci = self.inst[k]
            sel = self.selected(ci, "SETATTR")
            py = m.eff(ci, ("__setattr__", "f"))

            def assign():
                if py is not None:
                    self.ev(("body", self.qual(py["owner"], py["func"]), {"self": "self"}))
                return "NoneType"

            if sel:
                return self.inv_wrapped(k, sel, assign)
            return assign()
        if t == "repr":
            return "str"
        if t == "read":
            return "int"
        raise RefInconsistency("unknown op %r" % (op,))

    def qual(self, owner, f):
        name = {"init": "__init__", "new": "__new__", "repr": "__repr__", "pysetattr": "__setattr__",
                "getattribute": "__getattribute__"}.get(f["kind"], f["name"])
        return "%s.%s%s" % (self.m.classes[owner]["name"], name,
                            {"setter": ".set", "deleter": ".del"}.get(f["kind"], ""))

    def construct(self, ci, k, op):
        m = self.m
        okey = ("o", k)
        new_eff = m.eff(ci, ("__new__", "f"))
        init_eff = m.eff(ci, ("__init__", "f"))

        def run_new_of(eff, an_op):
            f = eff["func"]
            owner = eff["owner"]
            env = self.call_env(f, an_op, {"cls": "cls"})
            benv = {p: env[p] for p in f.get("params", []) if p in env}
            benv["cls"] = "cls"
            qual = self.qual(owner, f)

            def body():
                self.body(qual, f, benv)
                # rendered as: V.body(...); return super().__new__(cls)
                mro = m.mro[ci]
                for c in mro[mro.index(owner) + 1:]:
                    if ("__new__", "f") in m.members(c):
                        run_new_of(m.eff(c, ("__new__", "f")), {"args": {}})
                        break
                return "inst"

            self.checked_call(eff, ("m", owner, ("__new__", "f")), qual, env, body)

        def run_new():
            if new_eff is not None:
                run_new_of(new_eff, op)

        invs = m.invariants(ci)
        if init_eff is None:
            # no Python-level constructor anywhere: object construction, then all invariants
            run_new()
            if not any(m.classes[c].get("shape") == "dataclass" for c in m.mro[ci]):
                self.check_invs(invs, k)
                return "inst"
            # dataclass-generated __init__: treated as the outermost constructor
            self.S.add(okey)
            try:
                self.check_invs(invs, k)
            finally:
                self.S.discard(okey)
            return "inst"
        run_new()
        self.run_init(ci, k, init_eff, op, outermost=True)
        return "inst"

    def run_init(self, ci, k, init_eff, op, outermost):
        m = self.m
        okey = ("o", k)
        f = init_eff["func"]
        owner = init_eff["owner"]
        env = self.call_env(f, op, {"self": "self"})
        benv = {p: env[p] for p in f.get("params", []) if p in env}
        benv["self"] = "self"
        qual = self.qual(owner, f)

        def body():
            sup = f.get("super", "absent")
            if sup == "first":
                self.super_init(owner, k)
            py = m.eff(self.inst[k], ("__setattr__", "f"))
            if py is not None:  # rendered constructors assign self.plain before logging their body
                self.ev(("body", self.qual(py["owner"], py["func"]), {"self": "self"}))
            self.body(qual, f, benv)
            for s in f.get("ctor_calls", []):
                self._do({"op": "call", "k": k, "m": s, "args": {"x": "NoneType"}, "_self": True})
            if sup == "last":
                self.super_init(owner, k)
            return "NoneType"

        def inner():
            return self.checked_call(init_eff, ("m", owner, ("__init__", "f")), qual, env, body)

        invs = m.invariants(self.inst[k])
        if okey in self.S or not invs:
            return inner()
        self.S.add(okey)
        try:
            inner()
            self.check_invs(invs, k)
        finally:
            self.S.discard(okey)

    def super_init(self, owner, k):
        """super().__init__() from the constructor defined in class ``owner`` for instance k."""
        m = self.m
        ci = self.inst[k]
        mro = m.mro[ci]
        after = mro[mro.index(owner) + 1:]
        for c in after:
            if ("__init__", "f") in m.members(c):
                eff = m.eff(c, ("__init__", "f"))
                self.run_init(c, k, eff, {"args": {}}, outermost=False)
                return
        return


BASE_KINDS = {"KeyboardInterrupt", "SystemExit", "GeneratorExit", "ProgBaseError", "CancelledError"}


class Outcome(Exception):
    def __init__(self, what, base=False):
        super().__init__(what)
        self.what = what
        self.base = base  # the exception is a BaseException that is not an Exception


class MissingArg(Exception):
    pass


def run_ops(model, ops, truth, **kw):
    """Execute ops; return (log, outcomes, ref) with outcomes[i] = ('ret', x) | ('exc', what)."""
    r = Ref(model, truth, **{k: v for k, v in kw.items() if k in ("hold_marker_during_body", "event_budget")})
    r.scripts = {tuple(k) if not isinstance(k, tuple) else k: v for k, v in (kw.get("scripts") or {}).items()}
    r.fuel = kw.get("fuel", 0)
    r.body_specs = kw.get("body_specs") or {}
    outs = []
    for op in ops:
        mark = len(r.log)
        if op["op"] != "new" and "k" in op and op["k"] not in r.inst:
            outs.append(("skip", None, mark))
            continue
        r.counts = {}
        if op.get("truth"):
            r.truth = dict(r.truth)
            r.truth.update({int(k): v for k, v in op["truth"].items()})
        try:
            res = r.do(op)
            outs.append(("ret", res, mark))
        except Outcome as o:
            outs.append(("exc", o.what, mark))
    return r.log, outs, r
