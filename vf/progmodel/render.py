"""IR -> Python module source (DESIGN 3.1.2). The rendered text is what a replay file carries."""

HEADER = '''\
import asyncio
import dataclasses
import functools
import inspect
import icontract
from vf.vrt import V, ProgError, ProgBaseError, ErrA, ErrB


def foreign(fn):
    """A foreign decorator that plays by the rules (functools.wraps)."""
    if inspect.iscoroutinefunction(fn):
        @functools.wraps(fn)
        async def aw(*args, **kwargs):
            return await fn(*args, **kwargs)
        return aw

    @functools.wraps(fn)
    def w(*args, **kwargs):
        return fn(*args, **kwargs)
    return w


class Aw:
    """A non-coroutine awaitable that completes at once; being awaited is a point where control is in user code (a hook
    of the harness may raise there: the awaited operation fails)."""
    def __init__(self, v, kind=None, ident=None):
        self.v = v
        self.kind, self.ident = kind, ident
    def __await__(self):
        if self.kind is not None:
            V.awaited(self.kind, self.ident)
        return self.v
        yield


def done_future(v):
    loop = asyncio.new_event_loop()
    try:
        fut = loop.create_future()
        fut.set_result(v)
    finally:
        loop.close()
    return fut


def require_made(cid):
    """A contract factory: every precondition it makes is created at this one source location."""
    def made_pre():
        return V.c('pre', cid)
    return icontract.require(made_pre, '#%d' % cid)


def ensure_made(cid):
    """A contract factory for postconditions (one source location for all of them)."""
    def made_post(result):
        return V.c('post', cid, result=result)
    return icontract.ensure(made_post, '#%d' % cid)


class Fac:
    """Holder of bound-method error factories."""
    pass


FAC = Fac()
'''

CHECK_ON = {"CALL": "icontract.InvariantCheckEvent.CALL", "SETATTR": "icontract.InvariantCheckEvent.SETATTR",
            "ALL": "icontract.InvariantCheckEvent.ALL"}


def _kw(names):
    return ", ".join("%s=%s" % (n, n) for n in names)


class Renderer:
    def __init__(self, program):
        self.p = program
        self.pre = []  # helper definitions (conditions, factories, instances)
        self.out = []
        self._defined = set()

    # ---- helpers -------------------------------------------------------------
    def cond_expr(self, role, d):
        """Return the expression used as ``condition`` for a contract deco/invariant."""
        cid = d["cid"]
        args = list(d.get("args", []))
        call = "V.c(%r, %d%s)" % (role, cid, (", " + _kw(args)) if args else "")
        flavor = d.get("flavor", "sync")
        dargs = set(d.get("dargs", [])) if flavor == "sync" else set()
        args = [a for a in args if a not in dargs] + ["%s=V.NOARG" % a for a in args if a in dargs]
        if d.get("lam") and flavor in ("sync", "ret_coro_lam"):
            return "lambda %s: %s" % (", ".join(args), call)
        name = "c%d" % cid
        if name not in self._defined:
            self._defined.add(name)
            if flavor == "sync":
                self.pre.append("def %s(%s):\n    return %s\n" % (name, ", ".join(args), call))
            elif flavor == "corofunc":
                self.pre.append("async def %s(%s):\n    return %s\n" % (name, ", ".join(args), call))
            elif flavor == "gated":
                self.pre.append("async def %s(%s):\n    await V.gate('cond', %d)\n    return %s\n" % (
                    name, ", ".join(args), cid, call))
            elif flavor == "ret_coro":
                self.pre.append("async def _%s(%s):\n    return %s\n\ndef %s(%s):\n    return _%s(%s)\n" % (
                    name, ", ".join(args), call, name, ", ".join(args), name, ", ".join(args)))
            elif flavor == "awaitable":
                self.pre.append("def %s(%s):\n    return Aw(%s, 'cond', %d)\n" % (name, ", ".join(args), call, cid))
            elif flavor == "future":
                self.pre.append("def %s(%s):\n    return done_future(%s)\n" % (name, ", ".join(args), call))
            else:
                raise ValueError(flavor)
        return name

    def err_expr(self, d):
        e = d.get("err") or {"form": "default"}
        form = e["form"]
        cid = d["cid"]
        if form == "default":
            return None
        if form == "class":
            return "ErrA"
        if form == "baseclass":
            return "ErrB"
        if form == "instance":
            name = "EI_%d" % cid
            if name not in self._defined:
                self._defined.add(name)
                self.pre.append("%s = ErrA('instance error of #%d')\n" % (name, cid))
            return name
        args = list(e.get("args", []))
        dargs = set(e.get("dargs", []))  # parameters of the factory that carry a default of their own
        sig = [a for a in args if a not in dargs] + ["%s=V.NOARG" % a for a in args if a in dargs]
        call = "V.err(%d%s)" % (cid, (", " + _kw(args)) if args else "")
        if form == "lambda":
            return "lambda %s: %s" % (", ".join(sig), call)
        if form == "def":
            name = "e%d" % cid
            if name not in self._defined:
                self._defined.add(name)
                self.pre.append("def %s(%s):\n    return %s\n" % (name, ", ".join(sig), call))
            return name
        if form == "method":
            name = "m%d" % cid
            if name not in self._defined:
                self._defined.add(name)
                self.pre.append("def _%s(_fac%s):\n    return %s\nFac.%s = _%s\n" % (
                    name, "".join(", " + a for a in sig), call, name, name))
            return "FAC.%s" % name
        raise ValueError(form)

    def cap_expr(self, d):
        sid = d["sid"]
        args = list(d.get("args", []))
        call = "V.cap(%d%s)" % (sid, (", " + _kw(args)) if args else "")
        flavor = d.get("flavor", "sync")
        dargs = set(d.get("dargs", [])) if flavor == "sync" else set()  # capture parameters with a default of their own
        args = [a for a in args if a not in dargs] + ["%s=V.NOARG" % a for a in args if a in dargs]
        if d.get("lam", True) and flavor == "sync":
            return "lambda %s: %s" % (", ".join(args), call)
        name = "s%d" % sid
        if name not in self._defined:
            self._defined.add(name)
            if flavor == "sync":
                self.pre.append("def %s(%s):\n    return %s\n" % (name, ", ".join(args), call))
            elif flavor == "corofunc":
                self.pre.append("async def %s(%s):\n    return %s\n" % (name, ", ".join(args), call))
            elif flavor == "gated":
                self.pre.append("async def %s(%s):\n    await V.gate('cap', %d)\n    return %s\n" % (
                    name, ", ".join(args), sid, call))
            elif flavor == "ret_coro":
                self.pre.append("async def _%s(%s):\n    return %s\n\ndef %s(%s):\n    return _%s(%s)\n" % (
                    name, ", ".join(args), call, name, ", ".join(args), name, ", ".join(args)))
            elif flavor == "awaitable":
                self.pre.append("def %s(%s):\n    return Aw(%s, 'cap', %d)\n" % (name, ", ".join(args), call, sid))
            else:
                raise ValueError(flavor)
        return name

    def deco_lines(self, decos, ind):
        lines = []
        for d in decos:
            t = d["t"]
            if t == "wraps":
                lines.append("%s@foreign" % ind)
            elif t == "abstract":
                lines.append("%s@abc.abstractmethod" % ind)
            elif t in ("require", "ensure") and d.get("made"):
                lines.append("%s@%s_made(%d)" % (ind, t, d["cid"]))
            elif t in ("require", "ensure"):
                role = "pre" if t == "require" else "post"
                parts = [self.cond_expr(role, d), repr("#%d" % d["cid"])]
                e = self.err_expr(d)
                if e is not None:
                    parts.append("error=" + e)
                if d.get("enabled") is not None:
                    parts.append("enabled=%s" % d["enabled"])
                lines.append("%s@icontract.%s(%s)" % (ind, t, ", ".join(parts)))
            elif t == "snapshot":
                parts = [self.cap_expr(d)]
                if d.get("name") is not None:
                    parts.append("name=%r" % d["name"])
                if d.get("enabled") is not None:
                    parts.append("enabled=%s" % d["enabled"])
                lines.append("%s@icontract.snapshot(%s)" % (ind, ", ".join(parts)))
            else:
                raise ValueError(t)
        return lines

    def func_lines(self, f, ind, qual):
        kind = f["kind"]
        params = list(f.get("params", []))
        sigparts = []
        if kind in ("method", "getter", "setter", "deleter", "init"):
            sigparts.append("self")
        elif kind in ("class", "new"):
            sigparts.append("cls")
        for p in params:
            if p in f.get("defaults", {}):
                sigparts.append("%s=%s" % (p, f["defaults"][p]))
            else:
                sigparts.append(p)
        if kind == "repr":
            # not logged: value reprs inside violation messages call it at unspecified moments
            return ["%sdef __repr__(self):" % ind,
                    "%s    return '<%s>'" % (ind, qual.split(".")[0])]
        if kind == "getattribute":
            return ["%sdef __getattribute__(self, name):" % ind,
                    "%s    return object.__getattribute__(self, name)" % ind]
        if kind == "pysetattr":
            return ["%sdef __setattr__(self, name, value):" % ind,
                    "%s    V.body(%r, {'ret': 'None'}, {'self': self})" % (ind, qual),
                    "%s    object.__setattr__(self, name, value)" % ind]
        lines = []
        if kind == "static":
            lines.append("%s@staticmethod" % ind)
        elif kind == "class":
            lines.append("%s@classmethod" % ind)
        elif kind == "getter":
            lines.append("%s@property" % ind)
        elif kind in ("setter", "deleter"):
            # "extends": the accessor is added to a property INHERITED from that class (`@Base.p.setter`)
            owner = f["name"] if f.get("extends") is None else "%s.%s" % (self.p["classes"][f["extends"]]["name"], f["name"])
            lines.append("%s@%s.%s" % (ind, owner, kind))
        lines += self.deco_lines(f.get("decos", []), ind)
        name = {"init": "__init__", "new": "__new__"}.get(kind, f["name"])
        lines.append("%s%sdef %s(%s):" % (ind, "async " if f.get("async") else "", name, ", ".join(sigparts)))
        body = f.get("body") or {"ret": "obj"}
        bi = ind + "    "
        call = "V.body(%r, %r, locals())" % (qual, body)
        if kind == "init":
            sup = f.get("super", "absent")
            stmts = []
            if sup == "first":
                stmts.append("super().__init__()")
            stmts.append("self.plain = 0")
            stmts.append(call)
            for s in f.get("ctor_calls", []):
                stmts.append("self.%s(None)" % s)
            if sup == "last":
                stmts.append("super().__init__()")
            lines += [bi + s for s in stmts]
        elif kind == "new":
            lines.append(bi + call)
            if f.get("singleton"):
                # every construction returns the one instance of the class (singleton / interning)
                lines.append(bi + "if cls.__dict__.get('_the_instance') is None:")
                lines.append(bi + "    cls._the_instance = super().__new__(cls)")
                lines.append(bi + "return cls._the_instance")
            else:
                lines.append(bi + "return super().__new__(cls)")
        else:
            if f.get("async"):
                lines.append(bi + "await V.gate('body', %r)" % qual)
            lines.append(bi + "return " + call)
        return lines

    def class_lines(self, ci, c):
        lines = []
        for inv in reversed(c.get("invs", [])):
            args = ["self"] if inv.get("selfarg", True) else []
            d = dict(inv)
            d["args"] = args
            parts = [self.cond_expr("inv", d), repr("#%d" % inv["cid"])]
            e = self.err_expr(d)
            if e is not None:
                parts.append("error=" + e)
            if inv.get("on", "CALL") != "CALL" or inv.get("explicit_on"):
                parts.append("check_on=" + CHECK_ON[inv["on"]])
            if inv.get("enabled") is not None:
                parts.append("enabled=%s" % inv["enabled"])
            lines.append("@icontract.invariant(%s)" % ", ".join(parts))
        shape = c.get("shape", "plain")
        if shape == "dataclass":
            lines.append("@dataclasses.dataclass")
        bases = [self.p["classes"][b]["name"] for b in c.get("bases", [])]
        root = c.get("root", "DBC")
        head = "class %s" % c["name"]
        if bases:
            head += "(%s)" % ", ".join(bases)
        elif root == "DBC":
            head += "(icontract.DBC)"
        elif root == "meta":
            head += "(metaclass=icontract.DBCMeta)"
        elif root == "abc":
            head += "(abc.ABC)"
        lines.append(head + ":")
        body = []
        if shape == "slots":
            body.append("    __slots__ = ('plain', 'other')" if not bases else "    __slots__ = ()")
        if shape == "dataclass":
            body.append("    plain: object = None")
            body.append("    other: object = None")
        for f in c.get("members", []):
            body += self.func_lines(f, "    ", "%s.%s" % (c["name"], {
                "init": "__init__", "new": "__new__", "repr": "__repr__", "pysetattr": "__setattr__",
                "getattribute": "__getattribute__"}.get(
                f["kind"], f["name"]) + ({"setter": ".set", "deleter": ".del"}.get(f["kind"], ""))))
            body.append("")
        if not body:
            body.append("    pass")
        return lines + body

    def render(self):
        """Return (full_text, blocks); blocks = [(name, first_line, text)] to be executed one by one."""
        defs = []
        for f in self.p.get("funcs", []):
            defs.append((f["name"], "\n".join(self.func_lines(f, "", f["name"])) + "\n"))
        for ci, c in enumerate(self.p.get("classes", [])):
            defs.append((c["name"], "\n".join(self.class_lines(ci, c)) + "\n"))
        blocks = [("<header>", HEADER + "import abc\n"), ("<helpers>", "\n".join(self.pre) + "\n")] + defs
        text = ""
        out = []
        for name, src in blocks:
            first = text.count("\n") + 1
            out.append((name, first, src))
            text += src + "\n"
        return text, out


def render(program):
    return Renderer(program).render()
