"""Shared exploration loop for the single-call properties (C01, C02, C04, C08, C13, C16, C18):
generate a program, load it once, enumerate all truth assignments of the contracts the calls can touch,
hand every (case, truth, result) to the property's judge."""
from hypothesis import given, strategies as st

from vf import core, vrt
from vf.progmodel import gen as G
from vf.progmodel import harness as H
from vf.progmodel import ref as REF
from vf.progmodel import run as RUN


def all_cids(program):
    out = []
    for f in program.get("funcs", []):
        out += G.contract_ids(f.get("decos", []))
    for c in program.get("classes", []):
        for f in c.get("members", []):
            out += G.contract_ids(f.get("decos", []))
        out += [i["cid"] for i in c.get("invs", [])]
    return out


def program_features(program):
    feats = set()
    for f in program.get("funcs", []):
        feats.add("kind:function")
        if f.get("async"):
            feats.add("async")
    classes = program.get("classes", [])
    if len(classes) >= 3:
        feats.add("depth>=3")
    for c in classes:
        if len(c.get("bases", [])) >= 2:
            feats.add("multi-base")
        if c.get("invs"):
            feats.add("invariants")
        for f in c.get("members", []):
            feats.add("kind:" + f["kind"])
            if f.get("async"):
                feats.add("async")
            if f.get("extends") is not None:
                feats.add("inherited-property-extended")
    return feats


@st.composite
def st_function_case(draw, deco_kw, async_ok=True):
    ids = G.Ids()
    is_async = async_ok and draw(st.integers(0, 2)) == 0
    f = draw(G.st_func(ids, "f0", "function", is_async, **deco_kw))
    prog = {"funcs": [f], "classes": []}
    ops = [{"op": "callf", "f": "f0", "args": draw(G.st_call_args(f))}]
    return {"program": prog, "ops": ops, "codes": draw(G.st_codes(all_cids(prog))), "target_kind": "function"}


@st.composite
def st_class_case(draw, deco_kw, hier_kw):
    ids = G.Ids()
    prog, kind, mname = draw(G.st_hierarchy(ids, deco_kw=deco_kw, **hier_kw))
    ops = []
    try:
        model = REF.Model(prog)
    except REF.RefInconsistency:
        model = None
    for ci, c in enumerate(prog["classes"]):
        anc = set()
        stack = [ci]
        while stack:
            k = stack.pop()
            if k not in anc:
                anc.add(k)
                stack += prog["classes"][k].get("bases", [])
        takes_args = any(m["kind"] in ("init", "new") for k in anc for m in prog["classes"][k]["members"])
        cargs = draw(st.sampled_from([{}, {}, {"x": "a:cx"}, {"x": "a:cx", "y": "a:cy"}])) if takes_args else {}
        ops.append({"op": "new", "cls": ci, "k": ci, "args": cargs})
        f = None
        for cj in sorted(anc, reverse=True):
            for m in prog["classes"][cj]["members"]:
                if m["name"] == mname and m["kind"] == kind and f is None:
                    f = m
        if f is not None and kind in ("getter", "setter", "deleter") and model is not None:
            # the property object this class sees may lack the accessor (an MRO neighbour's property is another object)
            e = model.eff(ci, REF.member_key(f)) if model.def_error.get(ci) is None else None
            f = None if e is None else e["func"]
        if f is not None:
            ops.append(G.op_for_member(kind, ci, mname, draw(G.st_call_args(f))))
    return {"program": prog, "ops": ops, "codes": draw(G.st_codes(all_cids(prog))), "target_kind": kind,
            "member": mname}


@st.composite
def st_masks(draw, n, limit_all, n_sample):
    if n <= limit_all:
        return list(range(1 << n))
    full = (1 << n) - 1
    masks = {full, 0}
    for i in range(n):
        masks.add(full & ~(1 << i))
    for _ in range(n_sample):
        masks.add(draw(st.integers(0, full)))
    return sorted(masks)


def truth_for(cids, codes, mask, inv_cids=()):
    """Truth table of one assignment. A falsy INVARIANT is falsy from its first evaluation on in every second case; in
    the others it holds once per operation and fails from the second evaluation on, so that the object can still be
    constructed and the violation is found by the check after a call (the counters restart with every operation)."""
    out = {}
    for i, cid in enumerate(cids):
        if (mask >> i) & 1:
            out[cid] = [codes[cid][0]]
        elif cid in inv_cids and (mask + cid) % 2 == 0:
            out[cid] = [codes[cid][0], codes[cid][1]]
        else:
            out[cid] = [codes[cid][1]]
    return out


def explore(ctx, seed, max_examples, case_strategy, judge, limit_all=6, n_sample=24, ref_kw=None,
            exclude=None, nontrivial=None):
    """judge(ctx, case, truth, res, model) records failures; nontrivial(case, truth, res) -> bool."""

    @st.composite
    def st_full(draw):
        case = draw(case_strategy)
        cids = all_cids(case["program"])
        case["masks"] = draw(st_masks(len(cids), limit_all, n_sample))
        return case

    @given(st_full())
    def test(case):
        run_one(ctx, case, judge, ref_kw=ref_kw, exclude=exclude, nontrivial=nontrivial)

    core.run_hypothesis(test, seed, max_examples)


def run_one(ctx, case, judge, ref_kw=None, exclude=None, nontrivial=None):
    program = case["program"]
    try:
        model = REF.Model(program, **{k: v for k, v in (ref_kw or {}).items() if k == "liskov_unconstrained_base"})
    except REF.RefInconsistency:
        ctx.count("skipped:mro_conflict")
        return
    why = None if case.get("directed_known") else known_shape(program)
    if why is None and exclude is not None:
        why = exclude(ctx, case, model)
    if why:
        ctx.excluded_by_known += 1
        ctx.count("excluded:" + why)
        return
    cids = all_cids(program)
    feats = program_features(program)
    for f in feats:
        ctx.count("prog:" + f)
    codes = {int(k): v for k, v in case["codes"].items()}
    inv_cids = {i["cid"] for c in program.get("classes", []) for i in c.get("invs", [])}
    with RUN.Loaded(program) as loaded:
        for mask in case["masks"]:
            truth = truth_for(cids, codes, mask, inv_cids) if "fixed_truth" not in case else dict(case["fixed_truth"])
            try:
                res = H.run_case(program, case["ops"], truth, model=model, loaded=loaded, ref_kw=ref_kw)
            except REF.RefInconsistency as e:
                raise core.HarnessError("reference model inconsistency: %s\n%s" % (e, loaded.text))
            c = {"program": program, "ops": case["ops"], "truth": truth, "target_kind": case.get("target_kind")}
            if "family" in case:
                c["family"] = case["family"]
            judge(ctx, c, truth, res, model)
            nt = nontrivial(case, truth, res, mask, len(cids)) if nontrivial else True
            ctx.case([case.get("family"), program, case["ops"], mask], nt, sample=lambda: {
                "module": res.text[res.text.index("import abc") + 11:].strip()[:1500], "ops": res.ops, "truth": truth})
            if res.def_mismatch:
                break


def replay_case(ctx, case, judge, ref_kw=None):
    program = case["program"]
    why = None if case.get("directed_known") else known_shape(program)
    if why and getattr(ctx, "divert_known_shapes_on_replay", True):
        print("NOTE: the replayed program has the shape of the open finding %s (see known_findings.json); the generators "
              "divert this shape, so it is not judged here" % why)
        ctx.excluded_by_known += 1
        return None
    model = REF.Model(program, **{k: v for k, v in (ref_kw or {}).items() if k == "liskov_unconstrained_base"})
    truth = {int(k): v for k, v in case["truth"].items()}
    res = H.run_case(program, case["ops"], truth, model=model, ref_kw=ref_kw)
    judge(ctx, case, truth, res, model)
    ctx.evaluations += 1
    return res


def describe(case, res, extra=""):
    return "%s\nops: %r\ntruth: %r\n--- module ---\n%s" % (
        extra, case["ops"], case["truth"], res.text[res.text.index("import abc") + 11:].strip()[:3000])


def d23_shape(program):
    """Finding D23: a class with >=2 bases in a program where some class defines __new__ and some class with invariants
    has no __init__ on its own path (its __new__ is replaced by the library and then shadows the other base's)."""
    cl = program.get("classes", [])
    if not any(len(c.get("bases", [])) >= 2 for c in cl):
        return False
    if not any(m["kind"] == "new" for c in cl for m in c.get("members", [])):
        return False

    def anc(ci):
        out, stack = set(), [ci]
        while stack:
            k = stack.pop()
            if k not in out:
                out.add(k)
                stack += cl[k].get("bases", [])
        return out

    for ci, c in enumerate(cl):
        a = anc(ci)
        if any(cl[k].get("invs") for k in a) and not any(m["kind"] == "init" for k in a for m in cl[k]["members"]):
            return True
    return False


def d24_shape(program):
    """Finding D24: a class with call-time invariants that inherits members from an ancestor WITHOUT any (it introduces
    them, or gets them from another base) has to wrap those members and thereby re-defines them on itself; in a multiple-inheritance class `D(B, C)` this copy shadows C's
    override of the same member (or C's __init__ reached through super())."""
    cl = program.get("classes", [])
    if not any(len(c.get("bases", [])) >= 2 for c in cl):
        return False

    def anc(ci):
        out, stack = set(), list(cl[ci].get("bases", []))
        while stack:
            k = stack.pop()
            if k not in out:
                out.add(k)
                stack += cl[k].get("bases", [])
        return out

    def on_call(k):
        return any(i.get("on", "CALL") in ("CALL", "ALL") for i in cl[k].get("invs", []))

    def eff_on_call(k):
        return on_call(k) or any(on_call(j) for j in anc(k))

    for ci, c in enumerate(cl):
        # a class whose invariants are checked around calls (its own or those of one of its bases) and which inherits a
        # member from an ancestor that has none (neither own nor inherited - such an ancestor has not wrapped its
        # members, so this class wraps them and re-defines them on itself)
        if not eff_on_call(ci) or not c.get("bases"):
            continue
        a = anc(ci)
        own = {(m["name"], m["kind"]) for m in c.get("members", [])}
        inherited = {(m["name"], m["kind"]) for k in a if not eff_on_call(k) for m in cl[k].get("members", [])
                     if m["kind"] not in ("static", "class", "new") and not (m["name"].startswith("_") and m["kind"] != "init")}
        if inherited - own:
            return True
    return False


_active_shapes = None


def _m(name, kind, **kw):
    params, defaults = G.params_of(kind)
    d = {"name": name, "kind": kind, "async": False, "params": params, "defaults": defaults, "decos": [], "body": {"ret": "obj"}}
    d.update(kw)
    return d


D24_PROGRAM = {"funcs": [], "classes": [
    {"name": "K0", "bases": [], "root": "DBC", "shape": "plain", "invs": [], "members": [_m("m", "method")]},
    {"name": "K1", "bases": [0], "root": "DBC", "shape": "plain", "members": [],
     "invs": [{"cid": 1, "on": "CALL", "lam": False, "selfarg": True, "err": {"form": "default"}}]},
    {"name": "K2", "bases": [0], "root": "DBC", "shape": "plain", "invs": [], "members": [_m("m", "method")]},
    {"name": "K3", "bases": [1, 2], "root": "DBC", "shape": "plain", "invs": [], "members": []}]}
D24_OPS = [{"op": "new", "cls": 3, "k": 0, "args": {}}, {"op": "call", "k": 0, "m": "m", "args": {"x": "a:x"}}]
D23_PROGRAM = {"funcs": [], "classes": [
    {"name": "K0", "bases": [], "root": "DBC", "shape": "noinit", "members": [],
     "invs": [{"cid": 1, "on": "CALL", "lam": False, "selfarg": True, "err": {"form": "default"}}]},
    {"name": "K1", "bases": [], "root": "DBC", "shape": "plain", "invs": [], "members": [
        _m("__new__", "new", body={"ret": "None"}), _m("__init__", "init", body={"ret": "None"}, super="absent")]},
    {"name": "K2", "bases": [0, 1], "root": "DBC", "shape": "plain", "invs": [], "members": []}]}
D23_OPS = [{"op": "new", "cls": 2, "k": 0, "args": {}}]


def active_shapes():
    """Which of the open cross-check findings (D23, D24) still reproduce on the tree under test. A shape is only
    diverted while its canonical reproducer fails, so a repaired tree is explored in full."""
    global _active_shapes
    if _active_shapes is None:
        _active_shapes = set()
        for fid, prog, ops, want in (("D24", D24_PROGRAM, D24_OPS, "K2.m"), ("D23", D23_PROGRAM, D23_OPS, "K1.__new__")):
            try:
                res = H.run_case(prog, ops, {})
                bodies = [e[1] for e in res.real_log if e[0] == "body"]
                if want not in bodies:
                    _active_shapes.add(fid)
            except Exception:  # noqa - the reproducer itself failing to run counts as 'still broken'
                _active_shapes.add(fid)
    return _active_shapes


def known_shape(program):
    """Shapes of open known findings that every progmodel-based generator diverts (counted by the caller)."""
    act = active_shapes()
    if "D23" in act and d23_shape(program):
        return "D23"
    if "D24" in act and d24_shape(program):
        return "D24"
    return None


def struct_sig(case):
    """Small structural signature of a case for bucketing."""
    p = case["program"]
    kinds = sorted({f["kind"] for c in p.get("classes", []) for f in c.get("members", [])} |
                   {f["kind"] for f in p.get("funcs", [])})
    asy = any(f.get("async") for c in p.get("classes", []) for f in c.get("members", [])) or any(
        f.get("async") for f in p.get("funcs", []))
    multi = any(len(c.get("bases", [])) > 1 for c in p.get("classes", []))
    return "%s%s%s" % ("+".join(k for k in kinds if k != "init") or "none", "/async" if asy else "",
                       "/multi-base" if multi else "")
