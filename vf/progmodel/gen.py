"""Hypothesis strategies building program IR bottom-up (construction, not rejection) - DESIGN 3.1.6."""
from hypothesis import strategies as st

from vf import vrt

ERR_FORMS_ALL = ["default", "class", "baseclass", "instance", "lambda", "def", "method"]


class Ids:
    """Allocator of condition / snapshot ids for one program."""

    def __init__(self):
        self.c = 0
        self.s = 0

    def cid(self):
        self.c += 1
        return self.c

    def sid(self):
        self.s += 1
        return self.s


def params_of(kind):
    if kind in ("getter", "deleter"):
        return [], {}
    if kind == "setter":
        return ["value"], {}
    if kind in ("init", "new"):
        return ["x", "y"], {"x": "None", "y": "None"}
    return ["x", "y"], {"y": "None"}


def avail_names(kind):
    p, _ = params_of(kind)
    names = list(p)
    if kind in ("method", "getter", "setter", "deleter", "init"):
        names = ["self"] + names
    elif kind in ("class", "new"):
        names = ["cls"] + names
    return names


@st.composite
def st_subset(draw, names, max_n=3):
    out = [n for n in names if draw(st.booleans())]
    return out[:max_n]


@st.composite
def st_err(draw, names, forms):
    form = draw(st.sampled_from(forms))
    e = {"form": form}
    if form in ("lambda", "def", "method"):
        e["args"] = draw(st_subset(names))
    return e


@st.composite
def st_decos(draw, ids, kind, n_pre=(0, 3), n_post=(0, 2), n_snap=(0, 2), n_wraps=(0, 1), err_forms=("default",),
             lam_ok=True, extra_names=(), flavors=("sync",), cap_flavors=("sync",)):
    """Decorator stack in SOURCE order (top first); nearest-the-function last."""
    names = avail_names(kind) + list(extra_names)
    npre = draw(st.integers(*n_pre))
    npost = draw(st.integers(*n_post))
    nsnap = draw(st.integers(*n_snap)) if npost > 0 else 0
    nwr = draw(st.integers(*n_wraps))
    snap_names = []
    snaps = []
    for _ in range(nsnap):
        sid = ids.sid()
        mode = draw(st.sampled_from(["named", "unnamed1", "namedmulti"]))
        pnames = [n for n in names if n not in ("cls",)]
        if mode == "unnamed1" and pnames:
            cand = [n for n in pnames if n not in snap_names]
            if cand:
                a = draw(st.sampled_from(cand))
                snaps.append({"t": "snapshot", "sid": sid, "name": None, "args": [a],
                              "flavor": draw(st.sampled_from(list(cap_flavors)))})
                snap_names.append(a)
                continue
        nm = "s%d" % sid
        args = draw(st_subset(pnames, 2)) if mode != "named" else (draw(st_subset(pnames, 1)))
        snaps.append({"t": "snapshot", "sid": sid, "name": nm, "args": args,
                      "flavor": draw(st.sampled_from(list(cap_flavors)))})
        snap_names.append(nm)
    items = []
    for _ in range(npre):
        d = {"t": "require", "cid": ids.cid(), "args": draw(st_subset(names + ["_ARGS", "_KWARGS"][:0])),
             "lam": lam_ok and draw(st.integers(0, 3)) == 0, "flavor": draw(st.sampled_from(list(flavors)))}
        d["err"] = draw(st_err(names, list(err_forms)))
        items.append(d)
    for _ in range(npost):
        pn = names + ["result"] + (["OLD"] if snaps else [])
        d = {"t": "ensure", "cid": ids.cid(), "args": draw(st_subset(pn)),
             "lam": lam_ok and draw(st.integers(0, 3)) == 0, "flavor": draw(st.sampled_from(list(flavors)))}
        d["err"] = draw(st_err(pn, list(err_forms)))
        items.append(d)
    for d in items:
        # one contract in eight comes from a contract factory (all of them share one source location)
        if draw(st.integers(0, 7)) == 0 and d.get("enabled") is None:
            d.update({"made": True, "args": [] if d["t"] == "require" else ["result"], "lam": False,
                      "err": {"form": "default"}, "flavor": "sync"})
    for _ in range(nwr):
        items.append({"t": "wraps"})
    # application order = bottom to top; shuffle, then put each snapshot above (after) the first ensure
    app = list(draw(st.permutations(items))) if items else []
    for d in app:
        if d.get("flavor", "sync") != "sync":
            d["lam"] = False
    if snaps:
        first_post = min(i for i, d in enumerate(app) if d["t"] == "ensure")
        for s in snaps:
            pos = draw(st.integers(first_post + 1, len(app)))
            app.insert(pos, s)
    return list(reversed(app))


# singletons that mean something to the interpreter elsewhere (NotImplemented, Ellipsis) are results like any other
RET_POOL = ["obj", "None", "0", "''", "False", "list", "emptylist", "arg", "NotImplemented", "Ellipsis"]
EXC_POOL_SYNC = ["Exception", "KeyError", "ProgError", "KeyboardInterrupt", "SystemExit", "GeneratorExit",
                 "ProgBaseError", "StopIteration",
                 # types the library raises or handles itself somewhere: they pass through like any other
                 "RecursionError", "ProgRecursionError", "TypeError", "AttributeError", "ValueError"]
EXC_POOL_ASYNC = [e for e in EXC_POOL_SYNC if e != "StopIteration"]


@st.composite
def st_body(draw, is_async, raise_ok=True, kind="function"):
    if kind in ("init",):
        b = {"ret": "None"}
    elif raise_ok and draw(st.integers(0, 3)) == 0:
        b = {"raise": draw(st.sampled_from(EXC_POOL_ASYNC if is_async else EXC_POOL_SYNC))}
    else:
        b = {"ret": draw(st.sampled_from(RET_POOL))}
    if draw(st.booleans()):
        b["mut"] = {"x": draw(st.sampled_from(["mutate", "rebind", "leave"]))}
    return b


@st.composite
def st_func(draw, ids, name, kind, is_async=False, **deco_kw):
    params, defaults = params_of(kind)
    raise_ok = deco_kw.pop("raise_ok", True)
    f = {"name": name, "kind": kind, "async": is_async, "params": params, "defaults": defaults,
         "decos": draw(st_decos(ids, kind, **deco_kw)), "body": draw(st_body(is_async, raise_ok, kind))}
    return f


def contract_ids(decos):
    return [d["cid"] for d in decos if d["t"] in ("require", "ensure")]


@st.composite
def st_call_args(draw, f):
    """Arguments for one call of f: name -> token label."""
    args = {}
    for p in f.get("params", []):
        if p in f.get("defaults", {}) and draw(st.booleans()):
            continue
        args[p] = ("list:%s" % p) if (p == "x" and draw(st.booleans())) else ("a:%s" % p)
    return args


@st.composite
def st_codes(draw, cids):
    """Concrete truthy/falsy object codes per condition id."""
    return {cid: (draw(st.sampled_from(vrt.TRUTHY_CODES)), draw(st.sampled_from(vrt.FALSY_CODES))) for cid in cids}


def assignments(cids, codes, limit=10):
    """All 2^n truth assignments (n <= limit) as truth tables; beyond the limit the caller samples."""
    n = len(cids)
    for mask in range(1 << n):
        yield {cid: [codes[cid][0] if (mask >> i) & 1 else codes[cid][1]] for i, cid in enumerate(cids)}, mask


MEMBER_KINDS = ["method", "static", "class", "getter", "setter", "deleter"]


def op_for_member(kind, k, name, args):
    if kind == "getter":
        return {"op": "get", "k": k, "m": name}
    if kind == "setter":
        return {"op": "set", "k": k, "m": name, "args": args}
    if kind == "deleter":
        return {"op": "del", "k": k, "m": name}
    return {"op": "call", "k": k, "m": name, "args": args}


@st.composite
def st_hierarchy(draw, ids, n_classes=(1, 3), kinds=tuple(MEMBER_KINDS), dag=False, with_invs=False,
                 with_init=True, with_new=False, async_ok=True, multi_root=False, deco_kw=None, inv_err_forms=("default",), root_modes=("DBC", "meta")):
    """Classes over DBC sharing one member name (and optionally __init__), with drawn overrides."""
    deco_kw = dict(deco_kw or {})
    n = draw(st.integers(*n_classes))
    kind = draw(st.sampled_from(list(kinds)))
    is_async = async_ok and kind in ("method", "static", "class") and draw(st.integers(0, 1)) == 0
    # "_m"/"_p": protected members - their pre/postconditions and snapshots are inherited like any other member's, only
    # the invariants are not checked around them
    mname = draw(st.sampled_from(["m", "m", "do", "__getitem__", "_m"])) if kind == "method" else draw(
        st.sampled_from(["p", "p", "p", "_p"])) if kind in ("getter", "setter", "deleter") else draw(
        st.sampled_from(["m", "m", "m", "_m"]))
    classes = []
    for ci in range(n):
        if ci == 0:
            bases = []
        elif dag and multi_root and draw(st.integers(0, 3)) == 0:
            bases = []  # a further, independent root
        elif dag and ci >= 2 and draw(st.booleans()):
            b1 = draw(st.integers(0, ci - 1))
            b2 = draw(st.integers(0, ci - 1).filter(lambda b: b != b1))
            bases = [b1, b2]
        else:
            bases = [draw(st.integers(0, ci - 1))] if dag else [ci - 1]
        c = {"name": "K%d" % ci, "bases": bases, "root": draw(st.sampled_from(list(root_modes))), "shape": "plain",
             "invs": [], "members": []}
        how = "define" if ci == 0 else draw(st.sampled_from(["define", "define", "define", "skip"]))
        if how == "skip" and kind in ("getter", "setter", "deleter") and len(bases) == 1 and draw(st.booleans()):
            # extend the INHERITED property with an accessor it lacks (`@K<owner>.p.deleter`): the accessors that are
            # re-used from the base are the base's own function objects
            owner = bases[0]
            while owner is not None and not any(m["name"] == mname for m in classes[owner]["members"]):
                owner = classes[owner]["bases"][0] if len(classes[owner]["bases"]) == 1 else None
            if owner is not None:
                have = {m["kind"] for m in classes[owner]["members"] if m["name"] == mname}
                lacking = [k for k in ("setter", "deleter") if k not in have]
                if lacking and not any(m.get("extends") is not None for m in classes[owner]["members"]):
                    f = draw(st_func(ids, mname, lacking[0], False, **dict(deco_kw, n_pre=(0, 0))))
                    f["extends"] = owner
                    c["members"].append(f)
        if ci > 0 and not bases and draw(st.booleans()):
            # an independent root often provides the member without any precondition
            deco_kw_root = dict(deco_kw)
            deco_kw_root["n_pre"] = (0, 0)
        else:
            deco_kw_root = None
        if how == "define":
            fk = dict(deco_kw_root or deco_kw)
            if ci > 0 and draw(st.integers(0, 2)) == 0:
                fk["n_pre"] = (0, 0)  # redefinition without own preconditions
            members = []
            if kind in ("getter", "setter", "deleter"):
                # a property always has a getter; the accessor under test carries the contracts
                if kind != "getter":
                    members.append({"name": mname, "kind": "getter", "async": False, "params": [], "defaults": {},
                                    "decos": [], "body": {"ret": "obj"}})
                members.append(draw(st_func(ids, mname, kind, False, **fk)))
            else:
                members.append(draw(st_func(ids, mname, kind, is_async, **fk)))
            c["members"] += members
        if with_init and draw(st.integers(0, 2)) == 0:
            ik = dict(deco_kw)
            ik["n_snap"] = (0, 1)
            ik["raise_ok"] = False
            fi = draw(st_func(ids, "__init__", "init", False, **ik))
            fi["super"] = draw(st.sampled_from(["absent", "first", "last"])) if ci > 0 else "absent"
            c["members"].append(fi)
        if with_new and draw(st.integers(0, 3)) == 0:
            nk = dict(deco_kw)
            nk["n_snap"] = (0, 1)
            nk["raise_ok"] = False
            fn = draw(st_func(ids, "__new__", "new", False, **nk))
            fn["body"] = {"ret": "None"}
            c["members"].append(fn)
            if not any(m["kind"] == "init" for m in c["members"]):
                # a class with its own __new__ also gets an __init__ here: without one, icontract wraps __new__
                # itself and a super().__new__ chain checks invariants inside the nested __new__ (finding D19,
                # explored by C03's directed scenarios, excluded from the generic programs)
                c["members"].append({"name": "__init__", "kind": "init", "async": False, "params": ["x", "y"],
                                     "defaults": {"x": "None", "y": "None"}, "decos": [], "body": {"ret": "None"},
                                     "super": "absent"})
        if with_invs:
            for _ in range(draw(st.integers(0, 2))):
                inv = {"cid": ids.cid(), "on": draw(st.sampled_from(["CALL", "CALL", "SETATTR", "ALL"])),
                       "lam": draw(st.booleans()), "selfarg": draw(st.integers(0, 4)) != 0}
                inv["err"] = draw(st_err(["self"] if inv["selfarg"] else [], list(inv_err_forms)))
                if inv["err"]["form"] in ("lambda", "def", "method") and not inv["selfarg"]:
                    inv["err"]["args"] = []
                c["invs"].append(inv)
        classes.append(c)
    return {"funcs": [], "classes": classes}, kind, mname
