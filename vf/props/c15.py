"""C15 - disabled contracts are absent; enabled ones do not depend on interpreter mode. DESIGN 4/C15."""
import itertools
import json
import os
import subprocess
import sys

from vf import core

ID = "C15"
LEVEL = "exploration"
SHARDS = {"quick": 1, "thorough": 1}
RULE = ("(1) complete matrix, evaluated inside 21 worker interpreters {python, python -O, python -OO} x ICONTRACT_SLOW "
        "{unset, '', '1', '0', 'false', ' ', 'no'}: decorator {require, ensure, snapshot, invariant} x enabled {default, True, False, "
        "icontract.SLOW} x callable kind {function, async function, method, staticmethod, classmethod, property getter; "
        "plain class / DBC class for invariant}. Oracle = expected-enabled table written from the statement: not "
        "enabled => the decorator returns the very object it was given, vars() of it are unchanged, the condition / "
        "capture is never called by a violating call and nothing is raised; enabled => the violating call raises "
        "ViolationError and the condition was called. (2) generated progmodel programs (function / DBC hierarchy, "
        "stacks, snapshots, invariants, every decorator with enabled=True) x drawn truth assignments are executed in "
        "the three interpreter modes; oracle = identical event trace and outcome in all modes (metamorphic) and equal "
        "to the reference. non-trivial = every matrix cell under -O/-OO or with ICONTRACT_SLOW set, and every generated "
        "program with a falsy contract; distinct = hash(cell, interpreter, env) / hash(program, ops, truth).")
ASSUMPTIONS = ["harness code never uses assert for verdicts (it runs under -O in the workers)"]
KNOWN = {}

# "snapshot+ensure": a snapshot stacked on a postcondition, both with the same `enabled` argument
DECOS = ["require", "ensure", "snapshot", "snapshot+ensure", "invariant"]
ENABLED = ["default", "True", "False", "SLOW"]
KINDS = ["function", "async", "method", "staticmethod", "classmethod", "getter"]
# the decorator stacked ABOVE @staticmethod / @classmethod receives the descriptor object itself; only the disabled
# case is specified for that ("returns the very object it was given")
DESCRIPTOR_KINDS = ["staticmethod-object", "classmethod-object"]
INV_KINDS = ["plain-class", "dbc-class", "plain-subclass-of-invariant-class", "dbc-subclass-of-invariant-class"]
MODES = [("normal", []), ("-O", ["-O"]), ("-OO", ["-OO"])]
# "non-empty string" is the documented switch: strings that spell false, zero or blank are non-empty too
SLOWS = [("unset", None), ("empty", ""), ("set", "1"), ("zero", "0"), ("false", "false"), ("blank", " "), ("word", "no")]


BASES = ["bare", "contracted", "foreign-over-contracted"]


def cells():
    for d in DECOS:
        for e in ENABLED:
            for k in (INV_KINDS if d == "invariant" else KINDS):
                for b in (["bare"] if d == "invariant" else BASES):
                    yield d, e, k, b
            if d in ("require", "ensure"):
                for k in DESCRIPTOR_KINDS:
                    yield d, e, k, "bare"


# ---- worker side ------------------------------------------------------------------------------------------------

def eval_cell(deco, enabled, kind, base="bare"):
    """Runs inside a worker. Returns observations (no verdicts here)."""
    import functools
    import inspect

    import icontract
    from vf.progmodel.run import drive

    counters = {"cond": 0, "cap": 0, "body": 0}

    def cond():
        counters["cond"] += 1
        return False

    def cond_self(self):
        counters["cond"] += 1
        return False

    def cap(x=None):
        counters["cap"] += 1
        return 1

    kw = {}
    if enabled == "True":
        kw["enabled"] = True
    elif enabled == "False":
        kw["enabled"] = False
    elif enabled == "SLOW":
        kw["enabled"] = icontract.SLOW
    obs = {"debug": __debug__, "SLOW": bool(icontract.SLOW)}
    if deco == "invariant":
        if kind == "dbc-class":
            class K(icontract.DBC):
                def __init__(self):
                    self.x = 1

                def m(self):
                    counters["body"] += 1
                    return 1
        elif kind in ("plain-subclass-of-invariant-class", "dbc-subclass-of-invariant-class"):
            # the class under the decorator already carries an (enabled, satisfied) invariant of its base and defines
            # members of its own
            base_cls = icontract.invariant(lambda self: True, enabled=True)(
                type("P", (icontract.DBC,) if kind.startswith("dbc") else (), {"__init__": lambda self: setattr(self, "x", 1)}))

            class K(base_cls):
                def m(self):
                    counters["body"] += 1
                    return 1
        else:
            class K:
                def __init__(self):
                    self.x = 1

                def m(self):
                    counters["body"] += 1
                    return 1
        before = set(vars(K))
        init_before = K.__dict__.get("__init__")
        m_before = K.__dict__["m"]
        dec = icontract.invariant(cond_self, **kw)
        K2 = dec(K)
        obs["identity"] = K2 is K
        obs["vars_unchanged"] = set(vars(K)) == before and K.__dict__.get("__init__") is init_before and K.__dict__["m"] is m_before
        try:
            K2().m()
            obs["raised"] = None
        except icontract.ViolationError:
            obs["raised"] = "ViolationError"
        except BaseException as e:  # noqa
            obs["raised"] = type(e).__name__
        obs["counters"] = dict(counters)
        return obs
    # function-level decorators
    is_async = kind == "async"
    if is_async:
        async def orig(x):
            counters["body"] += 1
            return x
    else:
        def orig(x):
            counters["body"] += 1
            return x
    if kind == "method" or kind == "getter":
        if kind == "getter":
            def orig(self):  # noqa
                counters["body"] += 1
                return 1
        else:
            def orig(self, x):  # noqa
                counters["body"] += 1
                return x
    if kind in ("classmethod", "classmethod-object"):
        def orig(cls, x):  # noqa
            counters["body"] += 1
            return x
    if kind in DESCRIPTOR_KINDS:
        desc = (staticmethod if kind.startswith("static") else classmethod)(orig)
        desc.marker = "kept"
        before = dict(vars(desc))
        out = getattr(icontract, deco)(cond, **kw)(desc) if not expected_enabled_here(enabled) else desc
        obs["identity"] = out is desc
        obs["vars_unchanged"] = dict(vars(desc)) == before
        obs["skipped"] = expected_enabled_here(enabled)
        try:
            type("H", (), {"f": out}).f(1)
            obs["raised"] = None
        except icontract.ViolationError:
            obs["raised"] = "ViolationError"
        except BaseException as e:  # noqa
            obs["raised"] = "%s: %s" % (type(e).__name__, e)
        obs["counters"] = dict(counters)
        obs["foreign_ran"] = None
        return obs
    orig.marker = "kept"
    if base != "bare":
        # the object handed to the decorator under test already carries an (enabled, satisfied) contract,
        # optionally below a foreign functools.wraps decorator
        orig = icontract.require(lambda: True, enabled=True)(orig)
        if base == "foreign-over-contracted":
            inner = orig
            if inspect.iscoroutinefunction(inner):
                @functools.wraps(inner)
                async def orig(*a, **k):  # noqa
                    counters["foreign"] = counters.get("foreign", 0) + 1
                    return await inner(*a, **k)
            else:
                @functools.wraps(inner)
                def orig(*a, **k):  # noqa
                    counters["foreign"] = counters.get("foreign", 0) + 1
                    return inner(*a, **k)
    before = dict(vars(orig))
    target = orig
    if deco == "snapshot":
        # a snapshot needs a postcondition below it; that one is explicitly enabled and holds
        target = icontract.ensure(lambda: True, enabled=True)(orig)
        before_t = dict(vars(target))
        dec = icontract.snapshot(cap if kind not in ("getter",) else (lambda: cap()), name="s", **kw)
        out = dec(target)
        obs["identity"] = out is target
        obs["vars_unchanged"] = {k: v for k, v in vars(target).items() if k != "__postcondition_snapshots__"} == {
            k: v for k, v in before_t.items() if k != "__postcondition_snapshots__"} and (
            len(target.__postcondition_snapshots__) == 0)
    elif deco == "snapshot+ensure":
        below = icontract.ensure(cond, **kw)(orig)
        out = icontract.snapshot(cap if kind not in ("getter",) else (lambda: cap()), name="s", **kw)(below)
        obs["identity"] = out is orig
        obs["vars_unchanged"] = dict(vars(orig)) == before
    else:
        c = cond
        dec = getattr(icontract, deco)(c, **kw)
        out = dec(orig)
        obs["identity"] = out is orig
        obs["vars_unchanged"] = dict(vars(orig)) == before
    # call with violating arguments (every condition returns False)
    try:
        if kind in ("function", "async"):
            r = out(1)
            if is_async:
                drive(r)
        elif kind == "staticmethod":
            H = type("H", (), {"f": staticmethod(out)})
            H().f(1)
        elif kind == "classmethod":
            H = type("H", (), {"f": classmethod(out)})
            H.f(1)
        elif kind == "method":
            H = type("H", (), {"f": out})
            H().f(1)
        else:
            H = type("H", (), {"f": property(out)})
            H().f
        obs["raised"] = None
    except icontract.ViolationError:
        obs["raised"] = "ViolationError"
    except BaseException as e:  # noqa
        obs["raised"] = "%s: %s" % (type(e).__name__, e)
    obs["counters"] = dict(counters)
    obs["foreign_ran"] = (counters.get("foreign", 0) > 0) if base == "foreign-over-contracted" else None
    return obs


def expected_enabled_here(enabled):
    """Inside a worker: would a contract with this `enabled` be active in this interpreter?"""
    import icontract

    return {"default": __debug__, "True": True, "False": False, "SLOW": bool(icontract.SLOW)}[enabled]


def worker():
    core.setup_repo_path()
    tasks = json.load(sys.stdin)
    out = {"cells": [], "programs": []}
    for d, e, k, b in tasks["cells"]:
        try:
            out["cells"].append(eval_cell(d, e, k, b))
        except BaseException as ex:  # noqa
            out["cells"].append({"error": "%s: %s" % (type(ex).__name__, ex)})
    from vf.progmodel import harness as H
    from vf.progmodel import run as RUN

    for item in tasks["programs"]:
        prog, ops, truth = item[:3]
        scripts = {tuple(k): v for k, v in item[3]} if len(item) > 3 and item[3] else None
        fuel = item[4] if len(item) > 4 else 0
        try:
            with RUN.Loaded(prog) as loaded:
                errs = {k: (type(v).__name__ if v is not None else None) for k, v in loaded.errors.items()}
                log, outs, _ = core.in_fresh_thread(lambda: RUN.execute(
                    loaded, ops, {int(k): v for k, v in truth.items()}, scripts=scripts, fuel=fuel, event_budget=6000), stack_mb=256)
            out["programs"].append({"errors": errs, "log": [list(H.norm_event(e)) for e in log], "outs": [list(o[:2]) for o in outs]})
        except BaseException as ex:  # noqa
            out["programs"].append({"error": "%s: %s" % (type(ex).__name__, ex)})
    json.dump(out, sys.stdout, default=str)


# ---- parent side ------------------------------------------------------------------------------------------------

def expected_enabled(enabled, mode, slow):
    debug = mode == "normal"
    if enabled == "default":
        return debug
    if enabled == "True":
        return True
    if enabled == "False":
        return False
    return debug and slow not in (None, "")


def spawn(mode_flags, slow, payload):
    env = dict(os.environ)
    env.pop("ICONTRACT_SLOW", None)
    if slow is not None:
        env["ICONTRACT_SLOW"] = slow
    p = subprocess.run([sys.executable, "-B"] + mode_flags + ["-c", "from vf.props import c15; c15.worker()"],
                       input=payload, capture_output=True, text=True, cwd=core.VERIF_DIR, env=env, timeout=1800)
    if p.returncode != 0:
        raise core.HarnessError("C15 worker %s/%r failed: %s" % (mode_flags, slow, p.stderr[-3000:]))
    return json.loads(p.stdout)


def gen_programs(seed, n):
    """Programs whose decorators all say enabled=True, with a few truth assignments each."""
    from hypothesis import given, strategies as st
    from vf.progmodel import driver as D

    deco_kw = dict(n_pre=(0, 2), n_post=(0, 2), n_snap=(0, 1), n_wraps=(0, 1), err_forms=("default", "instance", "def"))
    hier_kw = dict(n_classes=(1, 3), dag=False, with_invs=True, with_init=True)
    out = []

    @st.composite
    def st_prog(draw):
        case = draw(st.one_of(D.st_function_case(deco_kw), D.st_class_case(deco_kw, hier_kw)))
        p = case["program"]
        for f in list(p.get("funcs", [])) + [m for c in p.get("classes", []) for m in c.get("members", [])]:
            for d in f.get("decos", []):
                if d["t"] in ("require", "ensure", "snapshot"):
                    d["enabled"] = True
                    d.pop("made", None)  # contracts from the contract factory carry no `enabled` argument
        for c in p.get("classes", []):
            for i in c.get("invs", []):
                i["enabled"] = True
        cids = D.all_cids(p)
        masks = [(1 << len(cids)) - 1] + [draw(st.integers(0, (1 << len(cids)) - 1)) for _ in range(2)] if cids else [0]
        codes = {int(k): v for k, v in case["codes"].items()}
        return [(p, case["ops"], D.truth_for(cids, codes, m)) for m in masks]

    @given(st_prog())
    def test(items):
        out.extend(items)

    core.run_hypothesis(test, seed, n)

    # call graphs of C10 (contracts and bodies that call contracted callables again), every contract enabled=True
    from vf.props import c10

    reentrant = []

    @st.composite
    def st_reentrant(draw):
        case = draw(c10.st_case())
        p = case["program"]
        for f in list(p.get("funcs", [])) + [m for c in p.get("classes", []) for m in c.get("members", [])]:
            for d in f.get("decos", []):
                if d["t"] in ("require", "ensure", "snapshot"):
                    d["enabled"] = True
                    d.pop("made", None)
        for c in p.get("classes", []):
            for i in c.get("invs", []):
                i["enabled"] = True
        cids = D.all_cids(p)
        codes = {int(k): v for k, v in case["codes"].items()}
        masks = [(1 << len(cids)) - 1, draw(st.integers(0, (1 << len(cids)) - 1))] if cids else [0]
        return [(p, case["ops"], D.truth_for(cids, codes, m), case["scripts"], case["fuel"]) for m in masks]

    @given(st_reentrant())
    def test2(items):
        reentrant.extend(items)

    core.run_hypothesis(test2, seed + 7, max(12, n))
    return directed_programs() + out + reentrant


def directed_programs():
    """Explicitly enabled contracts on a base class, overridden below WITHOUT any contract of their own (so that the
    override has no checker before the metaclass merges the inherited contracts), for every member kind."""
    from vf.progmodel import gen as G

    out = []
    for kind, is_async in (("method", False), ("method", True), ("static", False), ("class", False), ("getter", False),
                           ("setter", False)):
        name = "p" if kind in ("getter", "setter") else "m"
        params, defaults = G.params_of(kind)

        def member(decos):
            f = {"name": name, "kind": kind, "async": is_async, "params": params, "defaults": defaults, "decos": decos,
                 "body": {"ret": "obj"}}
            if kind == "setter":
                return [{"name": name, "kind": "getter", "async": False, "params": [], "defaults": {}, "decos": [],
                         "body": {"ret": "obj"}}, f]
            return [f]

        base = member([{"t": "require", "cid": 1, "args": [], "lam": False, "err": {"form": "default"}, "enabled": True},
                       {"t": "ensure", "cid": 2, "args": [], "lam": False, "err": {"form": "default"}, "enabled": True}])
        prog = {"funcs": [], "classes": [
            {"name": "K0", "bases": [], "root": "DBC", "shape": "plain", "invs": [], "members": base},
            {"name": "K1", "bases": [0], "root": "DBC", "shape": "plain", "invs": [], "members": member([])},
            {"name": "K2", "bases": [1], "root": "DBC", "shape": "plain", "invs": [], "members": member([])}]}
        ops = []
        args = {"value": "a:v"} if kind == "setter" else ({} if kind == "getter" else {"x": "a:x"})
        for ci in range(3):
            ops.append({"op": "new", "cls": ci, "k": ci, "args": {}})
            ops.append(G.op_for_member(kind, ci, name, args))
        for truth in ({1: ["T"], 2: ["T"]}, {1: ["F"], 2: ["T"]}, {1: ["T"], 2: ["F"]}):
            out.append((prog, ops, truth))
    # explicitly enabled snapshots whose names collide over a hierarchy / over two sibling bases (C08's definition
    # matrix): whatever the library does about them, it does the same in every interpreter mode
    import copy

    from vf.props import c08

    for vname, prog, ops in c08.directed_cases():
        if not vname.startswith(("dup-name-siblings", "dup-name-hierarchy", "dup-name-one-function")):
            continue
        prog = copy.deepcopy(prog)
        last = None
        for f in list(prog.get("funcs", [])) + [m for c in prog.get("classes", []) for m in c.get("members", [])]:
            for d in f.get("decos", []):
                d["enabled"] = True
            last = f
        ops = list(ops)
        if prog.get("classes") and last is not None and last["kind"] not in ("init", "new"):
            kind = last["kind"]
            args = {"value": "a:v"} if kind == "setter" else ({} if kind in ("getter", "deleter") else {"x": "a:x"})
            ops.append(G.op_for_member(kind, ops[-1]["k"], last["name"], args))
        out.append((prog, ops, {1: ["T"], 2: ["T"]}))
    return out


def sourceless_modes(ctx, only=None):
    """vf/scripts/c15_optmode.py: the same module once with its source file available and once compiled from a string (no
    source for inspect: byte-code-only deployment, `python -c`, exec), run in child interpreters (default, -O, -OO). An
    explicitly enabled contract does the same in every mode - same outcome type, same bodies run - also where the violation
    message cannot show the condition text; enabled=False is absent everywhere; the default follows __debug__. For the copy with
    sources the outcomes are spelled out."""
    from vf import modes

    names = ("pre_lambda", "pre_def", "post_lambda", "post_error_class", "Inv", "pre_default", "pre_disabled")
    runs = {modes.mode_name(f): modes.run_script("c15_optmode.py", f) for f in modes.MODES}
    base = runs["default"]
    for mode, got in runs.items():
        if only is not None and only != mode:
            continue
        for prefix in ("sourced", "sourceless"):
            for name in names:
                for arg in (1, -1):
                    label = "%s/%s(%d)" % (prefix, name, arg)
                    body = [name] if (arg == 1 or name.startswith(("post", "Inv"))) else []
                    ok = [["ret", "Inv" if name == "Inv" else arg], [name]]
                    if name == "pre_disabled" or (name == "pre_default" and mode != "default") or arg == 1:
                        want = ok
                    elif prefix == "sourced" or name == "pre_def":
                        want = [["ValueError" if name == "post_error_class" else "ViolationError"], body]
                    else:
                        want = base[label]  # no source: whatever the default mode does (the message cannot quote the condition)
                        if want[0][0] == "ret":
                            want = None
                    ctx.case(["sourceless-mode", mode, label], mode != "default" and prefix == "sourceless",
                             sample={"directed": "interpreter mode %s: %s" % (mode, label), "outcome": got.get(label)})
                    ctx.count("directed:sourceless-modes")
                    if want is None or got.get(label) != want:
                        ctx.fail("sourceless-mode|%s|%s|%s" % (mode, prefix, name), {"sourceless_mode": mode},
                                 "python %s vf/scripts/c15_optmode.py, %s: expected [outcome, bodies run] = %r, got %r" % (
                                     mode if mode != "default" else "", label, want, got.get(label)))


def run(ctx, tier, seed, shard, nshards):
    from vf.progmodel import harness as H
    from vf.progmodel import ref as REF

    if shard == 0:
        sourceless_modes(ctx)
    all_cells = list(cells())
    programs = gen_programs(seed, 40 if tier == "quick" else 400)
    results = {}
    payload = json.dumps({"cells": all_cells, "programs": [[it[0], it[1], {str(k): v for k, v in it[2].items()}] + list(it[3:])
                                                           for it in programs]})
    import concurrent.futures

    with concurrent.futures.ThreadPoolExecutor(max_workers=16) as ex:
        futs = {}
        for (mname, flags), (sname, slow) in itertools.product(MODES, SLOWS):
            # programs only need one ICONTRACT_SLOW setting per interpreter mode
            pl = payload if sname == "unset" else json.dumps({"cells": all_cells, "programs": []})
            futs[(mname, sname, slow)] = ex.submit(spawn, flags, slow, pl)
        for key, f in futs.items():
            results[key] = f.result()
    # (1) matrix
    for (mname, sname, slow), res in results.items():
        for (d, e, k, bs), obs in zip(all_cells, res["cells"]):
            case = {"cell": [d, e, k, bs], "mode": mname, "slow": sname}
            ctx.case(case, mname != "normal" or sname not in ("unset", "empty"), sample=dict(case, observed=obs))
            ctx.count("interpreter:" + mname)
            if "error" in obs:
                ctx.fail("cell-error|%s|%s|%s" % (d, e, k), case, "cell raised inside the worker: %s" % obs["error"])
                continue
            exp = expected_enabled(e, mname, slow)
            if k in DESCRIPTOR_KINDS and (exp or obs.get("skipped")):
                continue  # what an ENABLED contract does with a descriptor object is not specified
            tag = "%s|enabled=%s|%s/%s|%s|ICONTRACT_SLOW=%s" % (d, e, k, bs, mname, sname)
            calls = obs["counters"]["cap" if d == "snapshot" else "cond"]
            if not exp:
                bad = []
                if not obs["identity"]:
                    bad.append("the decorator did not return the object it was given")
                if not obs["vars_unchanged"]:
                    bad.append("attributes were added/changed on the object")
                if calls:
                    bad.append("the condition/capture was called %d times" % calls)
                if obs["raised"]:
                    bad.append("the call raised %s" % obs["raised"])
                if obs.get("foreign_ran") is False:
                    bad.append("the foreign decorator on the stack was not executed any more")
                if bad:
                    ctx.fail("disabled-not-absent|" + tag, case, "expected DISABLED (%s): %s" % (tag, "; ".join(bad)))
            else:
                bad = []
                if d != "snapshot" and obs["raised"] != "ViolationError":
                    bad.append("the violating call raised %r" % obs["raised"])
                if not calls:
                    bad.append("the condition/capture was never called")
                if obs.get("foreign_ran") is False and d != "snapshot":
                    bad.append("the foreign decorator on the stack was not executed any more")
                if bad:
                    ctx.fail("enabled-not-enforced|" + tag, case, "expected ENABLED (%s): %s" % (tag, "; ".join(bad)))
    ctx.exhaustive = True
    ctx.extra["exhaustive_scope"] = "decorator x enabled x kind x interpreter x ICONTRACT_SLOW matrix (%d cells x %d workers)" % (len(all_cells), len(MODES) * len(SLOWS))
    # (2) programs across interpreter modes
    base = results[("normal", "unset", None)]["programs"]
    for idx, item in enumerate(programs):
        p, ops, truth = item[:3]
        scripts = {tuple(k): v for k, v in item[3]} if len(item) > 3 and item[3] else None
        fuel = item[4] if len(item) > 4 else 0
        case = {"program": p, "ops": ops, "truth": {str(k): v for k, v in truth.items()}}
        if scripts:
            case["scripts"], case["fuel"] = item[3], fuel
            ctx.count("programs_with_re-entrant_calls")
        falsy = any(v[0] in ("F", "0", "''", "[]", "None", "Fb", "Fl") for v in truth.values())
        ctx.case(["prog", p, ops, truth], falsy)
        b = base[idx]
        if "error" in b:
            raise core.HarnessError("program failed in the normal interpreter: %s" % b["error"])
        for mname in ("-O", "-OO"):
            o = results[(mname, "unset", None)]["programs"][idx]
            if o != b:
                d = None
                if "log" in o and "log" in b:
                    d = H.first_diff(b["log"], o["log"])
                ctx.fail("mode-dependent|%s" % mname, case, "explicitly enabled contracts behave differently under %s:\n first "
                                                            "difference in the trace: %r\n outcomes normal: %r\n outcomes %s: %r" % (
                    mname, d, b.get("outs"), mname, o.get("outs", o.get("error"))))
                break
        # and against the reference
        try:
            model = REF.Model(p)
            ref_log, ref_outs, _ = REF.run_ops(model, ops, truth, scripts=scripts, fuel=fuel, event_budget=1200)
            real = [tuple(e) for e in b["log"]]
            ok = H.traces_match([H.norm_event(e) for e in ref_log], real) or any(v for v in b["errors"].values())
        except (REF.RefInconsistency, REF.DefError, KeyError):
            ok = True  # a class of this program is (expectedly) rejected at definition: no reference trace
        if not ok:
            ctx.fail("enabled-vs-reference", case, "explicitly enabled contracts do not follow the reference trace in the "
                                                   "normal interpreter: %r" % (H.first_diff([H.norm_event(e) for e in ref_log], real),))
        ctx.count("programs_compared_across_modes")


def replay(ctx, case):
    if case.get("sourceless_mode"):
        before = ctx.evaluations
        sourceless_modes(ctx, only=case["sourceless_mode"])
        ctx.evaluations = before + 1
        return
    if "cell" in case:
        d, e, k = case["cell"][:3]
        bs = case["cell"][3] if len(case["cell"]) > 3 else "bare"
        mode = dict(MODES)[case["mode"]]
        slow = dict(SLOWS)[case["slow"]]
        res = spawn(mode, slow, json.dumps({"cells": [[d, e, k, bs]], "programs": []}))
        obs = res["cells"][0]
        exp = expected_enabled(e, case["mode"], slow)
        calls = obs.get("counters", {}).get("cap" if d == "snapshot" else "cond", 0)
        if "error" in obs or (not exp and (not obs["identity"] or not obs["vars_unchanged"] or calls or obs["raised"])) or (
                exp and ((d != "snapshot" and obs["raised"] != "ViolationError") or not calls)):
            ctx.fail("replayed-cell", case, "cell %r: expected enabled=%s, observed %r" % (case, exp, obs))
        ctx.evaluations += 1
        return
    payload = json.dumps({"cells": [], "programs": [[case["program"], case["ops"], case["truth"]] + (
        [case["scripts"], case.get("fuel", 0)] if case.get("scripts") else [])]})
    outs = [spawn(flags, None, payload)["programs"][0] for _, flags in MODES]
    if outs[0] != outs[1] or outs[0] != outs[2]:
        ctx.fail("mode-dependent|replay", case, "behaviour differs across interpreter modes: %r" % (outs,))
    ctx.evaluations += 1
