"""C10 - contracts calling contracted code terminate; only own re-entry goes unchecked. DESIGN 4/C10, 3.1.5."""
from hypothesis import given, strategies as st

from vf import core, vrt
from vf.progmodel import driver as D
from vf.progmodel import gen as G
from vf.progmodel import harness as H
from vf.progmodel import ref as REF
from vf.progmodel import run as RUN
from vf.props import _single as S

ID = "C10"
LEVEL = "exploration"
SHARDS = {"quick": 1, "thorough": 16}
N_QUICK, N_THOROUGH = 300, 3000
RULE = ("case = (call graph: 1..4 contracted module functions (sync or async) + a class with 1..2 invariants and two "
        "public methods with contracts, 2 instances; SCRIPTS attached to conditions, captures, error factories, "
        "invariants and bodies = lists of 0..3 calls to any function / any method of any instance; body scripts are "
        "bounded by a fuel budget so that the unchecked program terminates; 1..2 top-level calls; one truth assignment "
        "out of all 2^n, n<=7). Oracle: (1) termination - the real run stays within 4x the reference's event count; "
        "(2) the evaluation log equals the reference run under the suspension semantics R written from the statement "
        "(a call is unchecked iff its function, resp. object, is being checked at that moment in this thread). "
        "non-trivial = some script calls contracted code from inside a contract (a cycle through a contract) and one "
        "of: >=2 re-entries of one function within one check, a body script calling a contracted function, calls on "
        "the second instance; distinct = hash(program, scripts, ops, assignment).")
ASSUMPTIONS = ["scripts swallow the Exceptions of the calls they make (in the harness hook and in the reference alike); "
               "BaseException kinds raised by method bodies propagate",
               "conditions are named functions (a lambda's documented re-evaluation would replay its script)",
               "function bodies raise Exception kinds only"]
KNOWN = {
    "D3": lambda bucket, case: bucket.startswith("nontermination|"),
    "D15": lambda bucket, case: bucket.startswith("trace|") and "body-recursion" in bucket,
}

FNAMES = ["f0", "f1", "f2", "f3"]


@st.composite
def st_case(draw):
    ids = G.Ids()
    nf = draw(st.integers(1, 4))
    deco_kw = dict(n_pre=(0, 2), n_post=(0, 1), n_snap=(0, 1), n_wraps=(0, 0), err_forms=("default", "def", "instance"),
                   lam_ok=False, raise_ok=False)
    all_async = draw(st.integers(0, 3)) == 0
    funcs = []
    for i in range(nf):
        f = draw(G.st_func(ids, FNAMES[i], "function", all_async, **deco_kw))
        f["body"] = {"ret": "obj"} if draw(st.integers(0, 4)) else {"raise": draw(st.sampled_from(["Exception", "ProgError"]))}
        funcs.append(f)
    classes = []
    with_class = draw(st.booleans())
    if with_class:
        c = {"name": "K0", "bases": [], "root": "DBC", "shape": "plain", "invs": [], "members": []}
        for _ in range(draw(st.integers(1, 2))):
            c["invs"].append({"cid": ids.cid(), "on": "CALL", "lam": False, "selfarg": True, "err": {"form": "default"}})
        for name in ("m", "n"):
            f = draw(G.st_func(ids, name, "method", all_async, **deco_kw))
            f["body"] = {"ret": "obj"}
            if draw(st.integers(0, 5)) == 0:
                # a body that ends with a BaseException (cancellation, interrupt): not swallowed by scripts
                f["body"] = {"raise": draw(st.sampled_from(["CancelledError", "KeyboardInterrupt", "ProgBaseError", "Exception"]))}
            c["members"].append(f)
        fi = {"name": "__init__", "kind": "init", "async": False, "params": ["x", "y"],
              "defaults": {"x": "None", "y": "None"}, "decos": [], "body": {"ret": "None"}, "super": "absent"}
        c["members"].append(fi)
        classes.append(c)
    prog = {"funcs": funcs, "classes": classes}

    def st_step():
        choices = [{"op": "callf", "f": f["name"], "args": {"x": "a:s"}} for f in funcs]
        if with_class:
            for k in (0, 1):
                for name in ("m", "n"):
                    choices.append({"op": "call", "k": k, "m": name, "args": {"x": "a:s"}})
        return st.sampled_from(choices)

    keys = []
    for f in funcs + [m for c in classes for m in c["members"] if m["kind"] == "method"]:
        qual = f["name"] if f["kind"] == "function" else "K0." + f["name"]
        keys.append(("body", qual))
        for d in f["decos"]:
            if d["t"] in ("require", "ensure"):
                keys.append(("cond", d["cid"]))
                if (d.get("err") or {}).get("form") == "def":
                    keys.append(("err", d["cid"]))
            elif d["t"] == "snapshot":
                keys.append(("cap", d["sid"]))
    for c in classes:
        for i in c["invs"]:
            keys.append(("cond", i["cid"]))
    scripts = {}
    for key in keys:
        if draw(st.integers(0, 2)) == 0:
            n = draw(st.integers(1, 3))
            scripts[key] = [dict(draw(st_step())) for _ in range(n)]
    ops = []
    if with_class:
        ops += [{"op": "new", "cls": 0, "k": 0, "args": {}}, {"op": "new", "cls": 0, "k": 1, "args": {}}]
    for _ in range(draw(st.integers(1, 4))):
        ops.append(dict(draw(st_step())))
    return {"program": prog, "ops": ops, "scripts": [[list(k), v] for k, v in scripts.items()],
            "fuel": draw(st.integers(0, 5)), "codes": draw(G.st_codes(D.all_cids(prog)))}


def features(case):
    scripts = {tuple(k): v for k, v in case["scripts"]}
    feats = set()
    cond_scripts = [v for k, v in scripts.items() if k[0] in ("cond", "cap", "err")]
    if any(cond_scripts):
        feats.add("cycle-through-contract")
    for v in cond_scripts:
        targets = [(s.get("f"), s.get("k"), s.get("m")) for s in v]
        if len(targets) != len(set(targets)):
            feats.add("double-reentry")
        if any(s.get("k") == 1 for s in v):
            feats.add("second-instance")
    if any(k[0] == "body" and v for k, v in scripts.items()) and case.get("fuel", 0) > 0:
        feats.add("body-recursion")
    return feats


def judge_case(ctx, case, truth, res):
    feats = sorted(features(case))
    tag = ",".join(feats)
    c = {"program": case["program"], "ops": case["ops"], "scripts": case["scripts"], "fuel": case["fuel"], "truth": truth}
    budget = 4 * len(res.ref_log) + 200
    nonterm = [o for o in res.real_outs if o[0] == "exc" and o[1][0] == "nonterminating"]
    if nonterm or len(res.real_log) > budget:
        ctx.fail("nontermination|%s" % tag, c, describe(c, res, "the real run does not terminate within the budget "
                                                                "(reference: %d events, real: >%d)" % (len(res.ref_log), len(res.real_log))))
        return
    for i, op, rs, qs, ro, qo in S.per_op(res):
        if not H.traces_match(rs, qs):
            d = H.first_diff(H.strip_opt(rs), qs) or H.first_diff(rs, qs)
            ctx.fail("trace|%s|ref:%s|real:%s" % (tag, S.ev_short(d[1]), S.ev_short(d[2])), c, describe(
                c, res, "op %d %r: contract evaluations differ at %d\n reference (R): %r\n real:          %r\n"
                        "reference trace:\n%s\nreal trace:\n%s" % (i, op, d[0], d[1], d[2], H.fmt_trace(rs, 60), H.fmt_trace(qs, 60))))
            return
        if not H.outcome_matches(ro, qo):
            ctx.fail("outcome|%s|ref:%s|real:%s" % (tag, ro[0], qo[0]), c, describe(
                c, res, "op %d %r: expected %r, got %r" % (i, op, ro[:2], qo[:2])))
            return


def describe(c, res, msg):
    t = res.text
    return "%s\nops: %r\nscripts: %r\nfuel: %r\ntruth: %r\n--- module ---\n%s" % (
        msg, c["ops"], c["scripts"], c["fuel"], c["truth"], t[t.index("import abc") + 11:].strip()[:3000])


def run_case(ctx, case, truth):
    scripts = {tuple(k): v for k, v in case["scripts"]}
    model = REF.Model(case["program"])
    try:
        res = H.run_case(case["program"], case["ops"], truth, model=model, scripts=scripts, fuel=case["fuel"],
                         stack_mb=256, event_budget=None or 6000, ref_kw={"event_budget": 1200})
    except REF.RefInconsistency:
        return None  # the reference run itself is too large: not generated (DESIGN 3.1.5)
    return res


def code_sharing(ctx):
    """Contracted functions made by ONE factory (closures sharing a code object) whose contracts call each other: a call
    of the sibling is a call of another function and is fully checked; only the function's own re-entry is not."""
    import icontract
    from vf.progmodel.run import drive

    for is_async in (False, True):
        for role in ("require", "ensure", "snapshot"):
            log = []
            box = {}

            def make(name, partner):
                def use_partner(x):
                    if x > 0 and partner in box:
                        r = box[partner](x - 1)
                        if is_async:
                            drive(r)

                def pre(x):
                    log.append("pre:" + name)
                    if role == "require":
                        use_partner(x)
                    return True

                def post(x, result):
                    log.append("post:" + name)
                    if role == "ensure":
                        use_partner(x)
                    return True

                def cap(x):
                    log.append("cap:" + name)
                    if role == "snapshot":
                        use_partner(x)
                    return x

                if is_async:
                    @icontract.require(pre)
                    @icontract.snapshot(cap, name="old_x")
                    @icontract.ensure(post)
                    async def f(x):
                        log.append("body:" + name)
                        return x
                else:
                    @icontract.require(pre)
                    @icontract.snapshot(cap, name="old_x")
                    @icontract.ensure(post)
                    def f(x):
                        log.append("body:" + name)
                        return x
                return f

            box["a"] = make("a", "b")
            box["b"] = make("b", "a")
            r = box["a"](1)
            if is_async:
                drive(r)
            inner = ["pre:b", "cap:b", "body:b", "post:b"]
            want = {"require": ["pre:a"] + inner + ["cap:a", "body:a", "post:a"],
                    "snapshot": ["pre:a", "cap:a"] + inner + ["body:a", "post:a"],
                    "ensure": ["pre:a", "cap:a", "body:a", "post:a"] + inner}[role]
            label = "%s functions from one factory, the %s of a calls b" % ("async" if is_async else "sync", role)
            ctx.case(["code-sharing", is_async, role], True, sample={"directed": label, "evaluated": list(log)})
            if log != want:
                ctx.fail("code-sharing|%s|%s" % ("async" if is_async else "sync", role), {"code_sharing": [is_async, role]},
                         "%s: evaluated %r, expected %r (the sibling is another function: all its contracts are checked)" % (
                             label, log, want))


def after_rejected_call(ctx):
    """A call that the checker itself refuses (a keyword named like a reserved value - result, OLD, _ARGS, _KWARGS - swallowed
    by **kwargs; a missing argument) is over when the TypeError leaves: it is no re-entry, so the next call of the same
    callable is fully checked."""
    import icontract
    from vf.progmodel.run import drive

    for is_async in (False, True):
        for as_method in (False, True):
            for misuse in ("result", "OLD", "_ARGS", "_KWARGS", "missing-argument"):
                log = []

                def pre(x):
                    log.append("pre")
                    return x > 0

                def post(result):
                    log.append("post")
                    return result > 0

                if is_async:
                    @icontract.require(pre)
                    @icontract.snapshot(lambda x: x, name="x0")
                    @icontract.ensure(post)
                    async def f(x, **kwargs):
                        log.append("body")
                        return x
                else:
                    @icontract.require(pre)
                    @icontract.snapshot(lambda x: x, name="x0")
                    @icontract.ensure(post)
                    def f(x, **kwargs):
                        log.append("body")
                        return x
                if as_method:
                    holder = type("K", (), {"f": staticmethod(f)})()
                    target = holder.f
                else:
                    target = f

                def call(*a, **k):
                    r = target(*a, **k)
                    return drive(r) if is_async else r

                try:
                    if misuse == "missing-argument":
                        call()
                    else:
                        call(1, **{misuse: 5})
                    first = "returned"
                except TypeError:
                    first = "TypeError"
                except BaseException as e:  # noqa
                    first = type(e).__name__
                del log[:]
                try:
                    call(-1)
                    second = "returned"
                except icontract.ViolationError:
                    second = "violation"
                except BaseException as e:  # noqa
                    second = type(e).__name__
                label = "%s %s, refused call with %s" % ("async" if is_async else "sync", "method" if as_method else "function", misuse)
                ctx.case(["after-rejected", is_async, as_method, misuse], True, sample={"directed": label, "refused call": first,
                                                                                      "next call": second})
                ctx.count("directed:after-rejected-call")
                if first != "TypeError" or second != "violation" or log != ["pre"]:
                    ctx.fail("after-rejected-call|%s|%s" % ("async" if is_async else "sync", misuse), {"after_rejected": True},
                             "%s: the refused call gave %s (TypeError expected); the next call with a violated precondition "
                             "gave %s evaluating %r (violation evaluating ['pre'] expected)" % (label, first, second, log))


def constructor_family(ctx, only=None):
    """Nested constructors: K1(K0) (and K2(K1)) whose __init__ calls super().__init__() first / last / not at all and then
    calls a public method of the object under construction, which calls another one. While the OUTER constructor runs the
    object is 'in progress' - none of these nested calls checks the invariants - and exactly once, after the outermost
    constructor, they are checked. Enumerated over depth x super placement x which constructors call methods x verdict."""
    import itertools

    def meth(name):
        return {"name": name, "kind": "method", "async": False, "params": ["x", "y"], "defaults": {"y": "None"},
                "decos": [], "body": {"ret": "obj"}}

    def init(sup, calls):
        f = {"name": "__init__", "kind": "init", "async": False, "params": ["x", "y"], "defaults": {"x": "None", "y": "None"},
             "decos": [], "body": {"ret": "None"}, "super": sup}
        if calls:
            f["ctor_calls"] = ["m"]
        return f

    inv = {"cid": 1, "on": "CALL", "lam": False, "selfarg": True, "err": {"form": "default"}}
    for depth, sup, calls, code in itertools.product((2, 3), ("first", "last", "absent"), itertools.product((False, True), repeat=3),
                                                     ("T", "F")):
        if only and only != [depth, sup, list(calls), code]:
            continue
        if not any(calls[:depth]):
            continue
        classes = [{"name": "K0", "bases": [], "root": "DBC", "shape": "plain", "invs": [inv],
                    "members": [meth("m"), meth("n"), init("absent", calls[0])]}]
        for lvl in range(1, depth):
            classes.append({"name": "K%d" % lvl, "bases": [lvl - 1], "root": "DBC", "shape": "plain", "invs": [],
                            "members": [init(sup, calls[lvl])]})
        prog = {"funcs": [], "classes": classes}
        top = depth - 1
        ops = [{"op": "new", "cls": top, "k": 0, "args": {}}, {"op": "call", "k": 0, "m": "n", "args": {"x": "a:s"}}]
        # the method called from the constructors calls a second method of the same object
        scripts = [[["body", "K0.m"], [{"op": "call", "k": 0, "m": "n", "args": {"x": "a:s"}}]]]
        truth = {1: [code]}
        case = {"program": prog, "ops": ops, "scripts": scripts, "fuel": 6, "truth": truth,
                "constructor_family": [depth, sup, list(calls), code]}
        res = run_case(ctx, case, truth)
        if res is None:
            continue
        before = set(ctx.failures)
        judge_case(ctx, case, truth, res)
        for b in list(ctx.failures):
            if b not in before:
                f = ctx.failures.pop(b)
                nb = "constructor-family|super-%s|%s" % (sup, b.split("|", 2)[-1])
                f.bucket = nb
                ctx.failures[nb] = f
                ctx.failure_counts[nb] = ctx.failure_counts.pop(b, 1)
        ctx.count("directed:constructor-family")
        ctx.case(["constructor-family", depth, sup, calls, code], True,
                 sample={"directed": "constructor family", "depth": depth, "super().__init__()": sup,
                         "constructors calling self.m()": list(calls[:depth]), "invariant": code})


def no_init_classes(ctx, only=None):
    """Classes WITHOUT a Python __init__ (plain class, typing.NamedTuple, a class that only defines __new__): their invariants
    are checked when __new__ returns. An invariant that calls a public method of the object - directly, or through the
    object's __repr__ while the violation message is built - re-enters the same object's invariants: the nested call is a
    plain call. The condition runs once per construction and the message of a violated one shows the object through its
    own __repr__ (no fallback rendering with a memory address)."""
    import typing
    import icontract

    for kind in ("plain", "namedtuple", "own-new", "sub-class-with-init"):
        for route in ("condition-calls-method", "repr-calls-method"):
            for ok in (True, False):
                key = [kind, route, ok]
                if only is not None and only != key:
                    continue
                log = []

                def inv(self):
                    log.append("inv")
                    if route == "condition-calls-method":
                        self.double()
                    return ok

                def double(self):
                    log.append("double")
                    return 2 * self.x

                def rep(self):
                    return "P(%d)" % (self.double() if route == "repr-calls-method" else self.x)

                try:
                    if kind == "plain":
                        P = icontract.invariant(inv)(type("P", (), {"x": 3, "double": double, "__repr__": rep}))
                        make = lambda: P()  # noqa
                    elif kind == "namedtuple":
                        Base = typing.NamedTuple("Base", [("x", int)])
                        P = icontract.invariant(inv)(type("P", (Base,), {"double": double, "__repr__": rep, "__slots__": ()}))
                        make = lambda: P(3)  # noqa
                    elif kind == "sub-class-with-init":
                        # the class given the invariant has no __init__ (its __new__ is wrapped); a DBC sub-class adds one
                        Base = icontract.invariant(inv)(type(icontract.DBC)("Base", (icontract.DBC,), {"double": double, "__repr__": rep}))

                        def sub_init(self, x):
                            self.x = x
                        P = type(Base)("P", (Base,), {"__init__": sub_init})
                        make = lambda: P(3)  # noqa
                    else:
                        def new(cls, x):
                            o = object.__new__(cls)
                            o.x = x
                            return o
                        P = icontract.invariant(inv)(type("P", (), {"__new__": new, "double": double, "__repr__": rep}))
                        make = lambda: P(3)  # noqa
                    try:
                        o = make()
                        got = ("constructed", list(log), "")
                        # afterwards the object is checked like any other: a call from outside is wrapped by the invariant
                        del log[:]
                        o.double()
                        around = ["inv", "double", "double", "inv", "double"] if route == "condition-calls-method" else ["inv", "double", "inv"]
                        if log != around:
                            got = ("constructed, but a later call evaluated %r instead of %r" % (log, around), None, "")
                    except icontract.ViolationError as e:
                        got = ("violation", [x for x in log if x == "inv"], "address" if " at 0x" in str(e) else "")
                    except RecursionError:
                        got = ("RecursionError", len(log), "")
                except BaseException as e:  # noqa
                    got = ("%s: %s" % (type(e).__name__, str(e)[:80]), None, "")
                if ok:
                    want = ("constructed", ["inv"] + (["double"] if route == "condition-calls-method" else []), "")
                else:
                    want = ("violation", ["inv"], "")
                ctx.case(["no-init-class"] + key, True, sample={"directed": "class without __init__ (%s), %s, invariant %s" % (
                    kind, route, "holds" if ok else "violated"), "outcome": str(got)[:100]})
                ctx.count("directed:no-init-classes")
                if got != want:
                    ctx.fail("no-init-class|%s|%s|%s" % (kind, route, "holds" if ok else "violated"), {"no_init_class": key},
                             "%s class whose invariant re-enters the object (%s), invariant %s: expected (outcome, events, address in "
                             "the message) %r, got %r" % (kind, route, "holds" if ok else "violated", want, got))


def overlapping_calls(ctx):
    """Checked coroutine calls of different functions / methods of different objects that OVERLAP in one context without
    being nested (driven by hand, as an event loop does for tasks given one context) and end first-in-first-out or
    last-in-first-out: "every other call is fully checked" - afterwards each of them is checked again, nothing stays
    suspended because another call was in flight when it ended. The cases are C11's interleaved family (its directed
    part), judged by the same probes."""
    from vf.props import c11

    for names in (["f0", "f1"], ["f0", "o0"], ["o0", "o1"], ["f0", "f1", "o0"], ["o0", "o1", "f0"]):
        k = len(names)
        for order in ("fifo", "lifo"):
            sched = [[i, "send"] for i in range(k)]
            sched += [[0, "send"]] * 12 if order == "fifo" else [[k - 1 - min(i // 4, k - 1), "send"] for i in range(12)]
            c11.interleaved_case(ctx, {"names": names, "schedule": sched, "label": "non-lifo" if order == "fifo" else "lifo"})
            ctx.count("directed:overlapping-calls")


def interpreter_modes(ctx, only=None):
    """The guard does not depend on the interpreter mode: a stand-alone program (vf/scripts/c10_optmode.py: contracts forced
    with enabled=True whose conditions, captures, error factories and invariants re-enter their own callable directly,
    mutually and through a second object; bodies that recurse) runs in a child interpreter normally, with -O and with -OO
    (assert statements stripped, __debug__ False, docstrings dropped). Every scenario terminates with the outcome and the
    event list spelled out in c10_optmode.expected.json."""
    import json
    import os
    import subprocess
    import sys

    here = os.path.join(os.path.dirname(os.path.dirname(os.path.abspath(__file__))), "scripts")
    want = json.load(open(os.path.join(here, "c10_optmode.expected.json")))
    repo = os.path.abspath(os.environ.get("VERIF_REPO", "/repo"))
    for flags in ([], ["-O"], ["-OO"]):
        mode = "".join(flags) or "default"
        if only is not None and only != mode:
            continue
        env = dict(os.environ, PYTHONDONTWRITEBYTECODE="1")
        env.pop("PYTHONOPTIMIZE", None)
        p = subprocess.run([sys.executable] + flags + [os.path.join(here, "c10_optmode.py"), repo], capture_output=True, text=True,
                           timeout=300, env=env)
        try:
            got = json.loads(p.stdout)
        except ValueError:
            raise RuntimeError("c10_optmode.py did not print JSON (mode %s): %s %s" % (mode, p.stdout[-300:], p.stderr[-600:]))
        if os.path.dirname(os.path.dirname(got.pop("icontract"))) != repo or got.pop("__debug__") != (not flags):
            raise RuntimeError("c10_optmode.py ran with the wrong library or mode")
        for label in sorted(want):
            ctx.case(["interpreter-mode", mode, label], bool(flags), sample={"directed": "interpreter mode %s: %s" % (mode, label),
                                                                           "outcome": got.get(label, [None])[0]})
            ctx.count("directed:interpreter-modes")
            if got.get(label) != want[label]:
                ctx.fail("interpreter-mode|%s|%s" % (mode, label.split("/")[0]), {"interpreter_mode": mode},
                         "python %s vf/scripts/c10_optmode.py, scenario %s: expected outcome %r with %d events, got %r with events %r" % (
                             " ".join(flags), label, want[label][0], len(want[label][1]), got.get(label, [None])[0],
                             (got.get(label) or [None, None])[1]))


def run(ctx, tier, seed, shard, nshards):
    import sys

    sys.setrecursionlimit(60000)  # once, before Hypothesis starts; worker threads get a 256 MB stack
    n = N_QUICK if tier == "quick" else N_THOROUGH
    active = getattr(ctx, "active_known", set())

    @st.composite
    def st_full(draw):
        case = draw(st_case())
        cids = D.all_cids(case["program"])
        case["masks"] = draw(D.st_masks(len(cids), 5 if tier == "quick" else 7, 12))
        return case

    @given(st_full())
    def test(case):
        feats = features(case)
        if "D3" in active and "double-reentry" in feats:
            ctx.excluded_by_known += 1
            return
        if "D15" in active and "body-recursion" in feats:
            ctx.excluded_by_known += 1
            return
        cids = D.all_cids(case["program"])
        codes = {int(k): v for k, v in case["codes"].items()}
        for mask in case["masks"]:
            truth = D.truth_for(cids, codes, mask)
            res = run_case(ctx, case, truth)
            if res is None:
                ctx.count("skipped:reference_too_large")
                continue
            judge_case(ctx, case, truth, res)
            for f in feats:
                ctx.count("feat:" + f)
            nt = "cycle-through-contract" in feats and bool(feats & {"double-reentry", "body-recursion", "second-instance"})
            ctx.case([case["program"], case["scripts"], case["ops"], case["fuel"], mask], nt, sample=lambda: {
                "ops": case["ops"], "scripts": case["scripts"], "fuel": case["fuel"], "truth": truth,
                "functions": [f["name"] for f in case["program"]["funcs"]]})

    core.run_hypothesis(test, seed, n)
    if shard == 0:
        code_sharing(ctx)
        constructor_family(ctx)
        after_rejected_call(ctx)
        interpreter_modes(ctx)
        no_init_classes(ctx)
        overlapping_calls(ctx)
        # callers in copied contexts (tasks / threads) while another call of the same function is inside its checks:
        # "skipped only for re-entrant calls ... in the current thread/task" - C01's family, judged the same way
        from vf.props import c01

        c01.concurrent_history(ctx)


def replay(ctx, case):
    import sys

    if case.get("directed") == "concurrent-history":
        from vf.props import c01

        return c01.concurrent_history(ctx)
    if "names" in case and "schedule" in case:
        from vf.props import c11

        return c11.interleaved_case(ctx, case)
    if case.get("no_init_class"):
        before = ctx.evaluations
        no_init_classes(ctx, only=case["no_init_class"])
        ctx.evaluations = before + 1
        return
    if case.get("interpreter_mode"):
        before = ctx.evaluations
        interpreter_modes(ctx, only=case["interpreter_mode"])
        ctx.evaluations = before + 1
        return
    if case.get("after_rejected"):
        before = ctx.evaluations
        after_rejected_call(ctx)
        ctx.evaluations = before + 1
        return
    if case.get("constructor_family"):
        before = ctx.evaluations
        constructor_family(ctx, only=case["constructor_family"])
        ctx.evaluations = before + 1
        return
    if case.get("code_sharing"):
        before = ctx.evaluations
        code_sharing(ctx)
        ctx.evaluations = before
        return

    sys.setrecursionlimit(60000)
    truth = {int(k): v for k, v in case["truth"].items()}
    res = run_case(ctx, case, truth)
    if res is not None:
        judge_case(ctx, case, truth, res)
    ctx.evaluations += 1
