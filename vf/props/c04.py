"""C04 - inherited contracts combine per Liskov (pre OR-ed, post and invariants AND-ed). DESIGN 4/C04."""
from hypothesis import strategies as st

from vf.progmodel import driver as D
from vf.progmodel import harness as H
from vf.props import _single as S

ID = "C04"
LEVEL = "exploration"
SHARDS = {"quick": 1, "thorough": 16}
N_QUICK, N_THOROUGH = 350, 800
RULE = ("case = (generated inheritance DAG of 2..6 classes over DBC/DBCMeta, each class with 1..2 earlier classes as "
        "bases; one member of a drawn kind (method, static, class, property get/set/del, sync/async) per hierarchy; per "
        "class the member is {not defined, redefined without preconditions, redefined with own preconditions} with "
        "0..2 postconditions, 0..1 snapshots, 0..2 invariants, optional __init__ contracts; the member is called on an "
        "instance of EVERY class; one truth assignment out of all 2^n (n<=7; sampled above)). Oracle: verdict (body "
        "entered, returned object, role of the surfaced error) against the DNF/CNF computed from the declaration; "
        "class-creation-time TypeError for weakening an unconstrained method. non-trivial = depth>=3, or a class with "
        "two bases, or a gap level (member not redefined), with at least one falsy contract; distinct = hash(program, "
        "ops, assignment).")
ASSUMPTIONS = ["a snapshot reaching a class along two paths of a diamond may or may not be rejected (unspecified); "
               "such classes are not used", "which of several falsy contracts of one role surfaces is C16's business",
               "method names avoid __call__: hasattr(base, '__call__') is answered by the metaclass, which makes icontract "
               "reject preconditions on __call__ in any DBC class (observation outside the listed properties, see DESIGN)"]
DECO_KW = dict(n_pre=(0, 2), n_post=(0, 2), n_snap=(0, 1), n_wraps=(0, 1), err_forms=("default", "default", "class", "instance"))
HIER_KW = dict(n_classes=(2, 6), dag=True, with_invs=True, with_init=True, multi_root=True)
KNOWN = {
    "D14": lambda bucket, case: bucket.startswith("unconstrained-base|"),
    # a verdict mismatch in a program where a class introducing invariants re-defines inherited members on itself and
    # a multi-base class picks that copy up instead of another base's override
    "D24": lambda bucket, case: ("verdict" in bucket) and "program" in case and D.d24_shape(case["program"]),
}


def role_of_cid(program):
    out = {}
    for f in program.get("funcs", []):
        for d in f.get("decos", []):
            if d["t"] == "require":
                out[d["cid"]] = "pre"
            elif d["t"] == "ensure":
                out[d["cid"]] = "post"
    for c in program.get("classes", []):
        for i in c.get("invs", []):
            out[i["cid"]] = "inv"
        for f in c.get("members", []):
            for d in f.get("decos", []):
                if d["t"] == "require":
                    out[d["cid"]] = "pre"
                elif d["t"] == "ensure":
                    out[d["cid"]] = "post"
    return out


def cid_of(what):
    if what[0] in ("viol", "inst"):
        return what[1]
    if what[0] == "cls":
        return what[2]
    if what[0] == "tok" and what[1].startswith("err"):
        return int(what[1][3:].split(".")[0])
    return None


def has_unconstrained_multibase(case, model):
    """D14 shape: a class with >=2 bases providing the member where one provider has no precondition and another has."""
    p = case["program"]
    for ci, c in enumerate(p["classes"]):
        if len(c.get("bases", [])) < 2:
            continue
        for f in c.get("members", []):
            from vf.progmodel.ref import member_key

            key = member_key(f)
            if key[0] in ("__init__", "__new__"):
                continue
            try:
                effs = [model.eff(b, key) for b in c["bases"]]
            except Exception:  # noqa
                continue
            effs = [e for e in effs if e is not None]
            if any(not e["pre"] for e in effs) and any(e["pre"] for e in effs):
                return True
    return False


def judge(ctx, case, truth, res, model):
    sig = D.struct_sig(case)
    d14 = has_unconstrained_multibase(case, model)
    pre = "unconstrained-base|" if d14 else ""
    if res.def_mismatch:
        for name, exp, real in res.def_mismatch:
            ctx.fail("%sdefinition|%s|exp:%s|real:%s" % (pre, sig, exp.split(" ")[0], real.split(":")[0]), case,
                     D.describe(case, res, "definition of %s: expected %s, got %s" % (name, exp, real)))
        return
    roles = role_of_cid(case["program"])
    for i, op, rs, qs, ro, qo in S.per_op(res):
        rb = [e[1] for e in rs if e[0] == "body"]
        qb = [e[1] for e in qs if e[0] == "body"]
        if rb != qb:
            ctx.fail("%sverdict-body|%s|%s|ref:%d|real:%d" % (pre, op["op"], sig, len(rb), len(qb)), case, D.describe(
                case, res, "op %d %r: bodies run %r, the combined contracts say %r (reference outcome %r, real %r)\n"
                           "real trace:\n%s" % (i, op, qb, rb, ro[:2], qo[:2], H.fmt_trace(qs))))
            return
        if ro[0] != qo[0]:
            ctx.fail("%sverdict|%s|%s|ref:%s|real:%s" % (pre, op["op"], sig, ro[0], qo[0]), case, D.describe(
                case, res, "op %d %r: expected %r, got %r\nreal trace:\n%s" % (i, op, ro[:2], qo[:2], H.fmt_trace(qs))))
            return
        if ro[0] == "exc":
            rc, qc = cid_of(ro[1]), cid_of(qo[1])
            if rc is None or qc is None:
                if not H.outcome_matches(ro, qo):
                    ctx.fail("%sverdict-exc|%s|%s" % (pre, op["op"], sig), case, D.describe(
                        case, res, "op %d %r: expected %r, got %r" % (i, op, ro[:2], qo[:2])))
                    return
                continue
            t_op = {int(k): v for k, v in op["truth"].items()} if op.get("truth") else truth  # an op may carry its own table
            falsy = any(not S.is_truthy(code) for code in (t_op.get(qc) or ["T"]))  # falsy at some evaluation
            if roles.get(rc) != roles.get(qc) or not falsy:
                ctx.fail("%sverdict-role|%s|%s|ref:%s|real:%s" % (pre, op["op"], sig, roles.get(rc), roles.get(qc)), case,
                         D.describe(case, res, "op %d %r: expected the error of a falsy %s (e.g. #%s), got #%s (%s, %s)" % (
                             i, op, roles.get(rc), rc, qc, roles.get(qc), "falsy" if falsy else "truthy")))
                return
        elif not H.outcome_matches(ro, qo):
            ctx.fail("%sverdict-result|%s|%s" % (pre, op["op"], sig), case, D.describe(
                case, res, "op %d %r: expected %r, got %r" % (i, op, ro[:2], qo[:2])))
            return


def multi_base_matrix():
    """Enumerated: two bases x {provides with a precondition, provides without, provides without any contract, does not
    provide} each, in both orders, x the sub-class {overrides without / with own preconditions / without any contract,
    does not override} x member kind x sync/async, a postcondition at every contracted level. All truth assignments are
    explored by the caller."""
    from vf.progmodel import gen as G

    kinds = [("method", False), ("method", True), ("static", False), ("class", False), ("getter", False),
             ("setter", False), ("deleter", False)]
    for kind, is_async in kinds:
        for b1 in ("pre", "nopre", "bare", "absent"):
            for b2 in ("pre", "nopre", "bare", "absent"):
                for child in ("override", "override+pre", "override-bare", "inherit"):
                    ids = G.Ids()
                    name = "p" if kind in ("getter", "setter", "deleter") else "m"

                    def members(mode, post=True):
                        if mode == "absent":
                            return []
                        params, defaults = G.params_of(kind)
                        decos = []
                        if post and mode != "bare":  # "bare": the member is provided without any contract at all
                            decos.append({"t": "ensure", "cid": ids.cid(), "args": [], "lam": False, "err": {"form": "default"}})
                        if mode in ("pre", "override+pre"):
                            decos.append({"t": "require", "cid": ids.cid(), "args": [], "lam": False, "err": {"form": "default"}})
                        f = {"name": name, "kind": kind, "async": is_async, "params": params, "defaults": defaults,
                             "decos": decos, "body": {"ret": "obj"}}
                        out = [f]
                        if kind in ("setter", "deleter"):
                            out = [{"name": name, "kind": "getter", "async": False, "params": [], "defaults": {}, "decos": [],
                                    "body": {"ret": "obj"}}, f]
                        return out

                    classes = [
                        {"name": "K0", "bases": [], "root": "DBC", "shape": "plain", "invs": [], "members": members(b1)},
                        {"name": "K1", "bases": [], "root": "DBC", "shape": "plain", "invs": [], "members": members(b2)},
                        {"name": "K2", "bases": [0, 1], "root": "DBC", "shape": "plain", "invs": [],
                         "members": members({"override": "nopre", "override+pre": "pre", "override-bare": "bare",
                                             "inherit": "absent"}[child])},
                    ]
                    prog = {"funcs": [], "classes": classes}
                    ops = []
                    for ci, c in enumerate(classes):
                        ops.append({"op": "new", "cls": ci, "k": ci, "args": {}})
                        provided = c["members"] or (ci == 2 and (classes[0]["members"] or classes[1]["members"]))
                        if provided:
                            args = {"value": "a:v"} if kind == "setter" else ({} if kind in ("getter", "deleter") else {"x": "a:x"})
                            ops.append(G.op_for_member(kind, ci, name, args))
                    cids = D.all_cids(prog)
                    yield {"program": prog, "ops": ops, "codes": {c: ("T", "F") for c in cids},
                           "masks": list(range(1 << len(cids))), "target_kind": kind, "matrix": [kind, is_async, b1, b2, child]}


def diamond_matrix():
    """Enumerated diamonds K3(K1, K2) over a common base K0 that provides the member: the left arm {inherits, overrides},
    the right arm {inherits, overrides, overrides with an own precondition}, the bottom {inherits, overrides}; invariants
    {none, on the root, on the root and one more on the left arm} (with invariants every class wraps its members, and an
    arm that merely inherits must not shadow the other arm's override); x member kind x sync/async. One instance and one
    operation per class."""
    from vf.progmodel import gen as G

    kinds = [("method", False), ("method", True), ("getter", False), ("setter", False), ("deleter", False)]
    for kind, is_async in kinds:
        for root in ("pre", "nopre"):
            for left in ("inherit", "override"):
                for right in ("inherit", "override", "override+pre"):
                    for bottom in ("inherit", "override"):
                        for invs in ("none", "root", "root+left"):
                            ids = G.Ids()
                            name = "p" if kind in ("getter", "setter", "deleter") else "m"

                            def members(mode):
                                if mode == "inherit":
                                    return []
                                params, defaults = G.params_of(kind)
                                decos = [{"t": "ensure", "cid": ids.cid(), "args": [], "lam": False, "err": {"form": "default"}}]
                                if mode in ("pre", "override+pre"):
                                    decos.append({"t": "require", "cid": ids.cid(), "args": [], "lam": False,
                                                  "err": {"form": "default"}})
                                f = {"name": name, "kind": kind, "async": is_async, "params": params, "defaults": defaults,
                                     "decos": decos, "body": {"ret": "obj"}}
                                if kind in ("setter", "deleter"):
                                    return [{"name": name, "kind": "getter", "async": False, "params": [], "defaults": {},
                                             "decos": [], "body": {"ret": "obj"}}, f]
                                return [f]

                            def inv():
                                return {"cid": ids.cid(), "on": "CALL", "lam": False, "selfarg": True, "err": {"form": "default"}}

                            classes = [
                                {"name": "K0", "bases": [], "root": "DBC", "shape": "plain", "members": members(root),
                                 "invs": [inv()] if invs != "none" else []},
                                {"name": "K1", "bases": [0], "root": "DBC", "shape": "plain", "members": members(left),
                                 "invs": [inv()] if invs == "root+left" else []},
                                {"name": "K2", "bases": [0], "root": "DBC", "shape": "plain", "members": members(right), "invs": []},
                                {"name": "K3", "bases": [1, 2], "root": "DBC", "shape": "plain", "members": members(bottom),
                                 "invs": []}]
                            prog = {"funcs": [], "classes": classes}
                            ops = []
                            for ci in range(4):
                                ops.append({"op": "new", "cls": ci, "k": ci, "args": {}})
                                args = {"value": "a:v"} if kind == "setter" else ({} if kind in ("getter", "deleter") else {"x": "a:x"})
                                ops.append(G.op_for_member(kind, ci, name, args))
                            cids = D.all_cids(prog)
                            n = len(cids)
                            masks = list(range(1 << n)) if n <= 4 else sorted({(1 << n) - 1, 0} | {(1 << n) - 1 - (1 << i) for i in range(n)} |
                                                                               {(0x9E3779B1 * (j + 1)) % (1 << n) for j in range(8)})
                            yield {"program": prog, "ops": ops, "codes": {c: ("T", "F") for c in cids}, "masks": masks,
                                   "target_kind": kind, "matrix": ["diamond", kind, is_async, root, left, right, bottom, invs]}


def gap_matrix():
    """Enumerated: an ancestor provides the member {with, without} a precondition, 1..2 intermediate classes do not
    define it, the last class {overrides, overrides with an own precondition, inherits}; x member kind x sync/async; a
    postcondition at both ends. (Adding a precondition below an unconstrained ancestor must be rejected across the gap.)"""
    from vf.progmodel import gen as G

    kinds = [("method", False), ("method", True), ("static", False), ("class", False), ("getter", False),
             ("setter", False), ("deleter", False)]
    for kind, is_async in kinds:
        for anc in ("pre", "nopre"):
            for gap in (1, 2):
                for child in ("override", "override+pre", "inherit"):
                    ids = G.Ids()
                    name = "p" if kind in ("getter", "setter", "deleter") else "m"

                    def members(mode):
                        if mode == "absent":
                            return []
                        params, defaults = G.params_of(kind)
                        decos = [{"t": "ensure", "cid": ids.cid(), "args": [], "lam": False, "err": {"form": "default"}}]
                        if mode == "pre":
                            decos.append({"t": "require", "cid": ids.cid(), "args": [], "lam": False, "err": {"form": "default"}})
                        f = {"name": name, "kind": kind, "async": is_async, "params": params, "defaults": defaults,
                             "decos": decos, "body": {"ret": "obj"}}
                        if kind in ("setter", "deleter"):
                            return [{"name": name, "kind": "getter", "async": False, "params": [], "defaults": {}, "decos": [],
                                     "body": {"ret": "obj"}}, f]
                        return [f]

                    classes = [{"name": "K0", "bases": [], "root": "DBC", "shape": "plain", "invs": [], "members": members(anc)}]
                    for g in range(gap):
                        classes.append({"name": "K%d" % (g + 1), "bases": [g], "root": "DBC", "shape": "plain", "invs": [],
                                        "members": []})
                    classes.append({"name": "K%d" % (gap + 1), "bases": [gap], "root": "DBC", "shape": "plain", "invs": [],
                                    "members": members({"override": "nopre", "override+pre": "pre", "inherit": "absent"}[child])})
                    prog = {"funcs": [], "classes": classes}
                    ops = []
                    for ci in range(len(classes)):
                        ops.append({"op": "new", "cls": ci, "k": ci, "args": {}})
                        args = {"value": "a:v"} if kind == "setter" else ({} if kind in ("getter", "deleter") else {"x": "a:x"})
                        ops.append(G.op_for_member(kind, ci, name, args))
                    cids = D.all_cids(prog)
                    yield {"program": prog, "ops": ops, "codes": {c: ("T", "F") for c in cids},
                           "masks": list(range(1 << len(cids))), "target_kind": kind, "matrix": ["gap", kind, is_async, anc, gap, child]}


def nontrivial(case, truth, res, mask, n):
    cl = case["program"].get("classes", [])
    falsy = n - bin(mask).count("1")
    if falsy < 1:
        return False
    deep = len(cl) >= 3
    multi = any(len(c.get("bases", [])) >= 2 for c in cl)
    gap = any(ci > 0 and not [m for m in c["members"] if m["kind"] not in ("init", "new")] for ci, c in enumerate(cl))
    return deep or multi or gap


def strategy():
    return D.st_class_case(DECO_KW, HIER_KW)


def exclude(ctx, case, model):
    if "D14" in getattr(ctx, "active_known", set()) and has_unconstrained_multibase(case, model):
        return "D14"
    return None


def run(ctx, tier, seed, shard, nshards):
    n = N_QUICK if tier == "quick" else N_THOROUGH
    D.explore(ctx, seed, n, strategy(), judge, limit_all=7 if tier == "quick" else 10, n_sample=32,
              nontrivial=nontrivial, exclude=exclude)
    if shard == 0:
        structural(ctx)
        constructor_cases(ctx)
        plain_attribute_cases(ctx)
        metaclass_name_cases(ctx)
        shared_decorator_cases(ctx)
        for case in multi_base_matrix():
            D.run_one(ctx, case, judge, exclude=exclude, nontrivial=nontrivial)
        ctx.count("multi_base_matrix_cells", 7 * 64)
        for case in gap_matrix():
            D.run_one(ctx, case, judge, exclude=exclude, nontrivial=nontrivial)
        ctx.count("gap_matrix_cells", 7 * 12)
        n = 0
        for case in diamond_matrix():
            D.run_one(ctx, case, judge, exclude=exclude, nontrivial=nontrivial)
            n += 1
        ctx.count("diamond_matrix_cells", n)
        # an instance of a sub-class satisfies the invariants of ALL its ancestors: C03's enumeration of invariant
        # orders (call / attribute-set / both, one or two bases, a sub-class without own invariants adding members)
        from vf.props import c03

        n = 0
        for case in c03.invariant_order_matrix():
            D.run_one(ctx, case, judge, exclude=exclude, nontrivial=lambda *a: True)
            n += 1
        ctx.count("invariant_order_matrix_cells", n)


def constructor_cases(ctx, only=None):
    """Constructors do not take part in the combination: a sub-class' __init__ / __new__ is checked against its OWN
    contracts only, whatever its function object is called (plain def, alias of another function, lambda-free closure from
    a decorator that does not preserve the name)."""
    import icontract

    log = []

    def nowraps(fn):
        def inner(*a, **kw):
            return fn(*a, **kw)
        return inner

    def cond(tag, pred):
        def c(x):
            log.append(tag)
            return pred(x)
        return c

    for what in ("__init__", "__new__"):
        for variant in ("plain", "alias", "no-wraps decorator"):
            for own in ("none", "tightened"):
                if only and only != [what, variant, own]:
                    continue
                del log[:]
                base_pre, base_post = cond("base-pre", lambda x: x > 0), cond("base-post", lambda x: x > 0)
                own_pre = cond("own-pre", lambda x: x > 10)
                if what == "__init__":
                    def base_ctor(self, x):
                        log.append("base-body")

                    def sub_ctor(self, x):
                        log.append("sub-body")
                else:
                    def base_ctor(cls, x):
                        log.append("base-body")
                        return object.__new__(cls)

                    def sub_ctor(cls, x):
                        log.append("sub-body")
                        return object.__new__(cls)
                base_ctor.__name__ = what
                sub_ctor.__name__ = what if variant == "plain" else "_construct"
                Base = type(icontract.DBC)("Base", (icontract.DBC,), {
                    what: icontract.require(base_pre)(icontract.ensure(base_post)(base_ctor))})
                f = sub_ctor
                if own == "tightened":
                    f = icontract.require(own_pre)(f)
                if variant == "no-wraps decorator":
                    f = nowraps(f)
                ns = {what: f}
                if variant == "alias":
                    ns["_construct"] = f
                try:
                    Sub = type(icontract.DBC)("Sub", (Base,), ns)
                except BaseException as e:  # noqa
                    ctx.fail("constructor|%s|%s|definition" % (what, variant), {"constructor_case": [what, variant, own]},
                             "defining Sub(Base) with %s as %s failed: %r" % (what, variant, e))
                    continue
                label = "%s of the sub-class: %s, own contracts: %s" % (what, variant, own)
                for arg in (-1, 5, 50):
                    del log[:]
                    try:
                        Sub(arg)
                        got = "constructed"
                    except icontract.ViolationError:
                        got = "violation"
                    except BaseException as e:  # noqa
                        got = "%s: %s" % (type(e).__name__, e)
                    accepted = own == "none" or arg > 10
                    # (a contract above a decorator that hides it from the class body is still the function's own)
                    want_log = (["own-pre"] if own == "tightened" else []) + (["sub-body"] if accepted else [])
                    want = "constructed" if accepted else "violation"
                    ctx.case(["constructor", what, variant, own, arg], True, sample={"directed": label, "argument": arg, "outcome": got})
                    ctx.count("directed:constructor-cases")
                    if got != want or log != want_log:
                        ctx.fail("constructor|%s|%s|%s" % (what, variant, own), {"constructor_case": [what, variant, own]},
                                 "%s, Sub(%d): expected %s evaluating %r (the base constructor's contracts are not inherited), "
                                 "got %s evaluating %r" % (label, arg, want, want_log, got, log))
                        break


def plain_attribute_cases(ctx, only=None):
    """A base class that merely has a non-callable ATTRIBUTE of the name (``handler = None``, a constant, a default
    value) provides no function to combine with: a sub-class defining a method of that name starts its own contract - its
    precondition is not a weakening of anything."""
    import icontract

    def a_method(self):
        return 0

    for value_name, value in (("None", None), ("int", 5), ("str", "text"), ("tuple", ()), ("dict", {}), ("method", a_method)):
        for kind in ("method", "static", "class", "property", "contracted property"):
            if only and only != [value_name, kind]:
                continue
            if value_name == "method" and not kind.endswith("property"):
                continue
            if kind.endswith("property"):
                # a property defined over a base attribute that is no property (a class-level default such as `name = None`)
                seen = []

                def getter(self):
                    seen.append("get")
                    return 7

                def post(result):
                    seen.append("post")
                    return result == 7

                g = icontract.ensure(post)(getter) if kind.startswith("contracted") else getter
                label = "base attribute p = %s, sub-class defines p as a %s" % (value_name, kind)
                try:
                    Base = type(icontract.DBC)("Base", (icontract.DBC,), {"p": value})
                    Sub = type(icontract.DBC)("Sub", (Base,), {"p": property(g)})
                    got = (Sub().p, list(seen))
                except BaseException as e:  # noqa
                    got = ("definition failed", type(e).__name__, str(e)[:140])
                want = (7, ["get", "post"] if kind.startswith("contracted") else ["get"])
                ctx.case(["plain-attribute", value_name, kind], True, sample={"directed": label, "outcome": str(got)[:120]})
                ctx.count("directed:plain-attribute-cases")
                if got != want:
                    ctx.fail("plain-attribute|%s" % kind, {"plain_attribute_case": [value_name, kind]},
                             "%s: expected %r, got %r" % (label, want, got))
                continue
            log = []

            def pre(x):
                log.append("pre")
                return x > 0

            def body(*a):
                log.append("body")
                return a[-1]

            f = icontract.require(pre)((lambda self, x: body(self, x)) if kind == "method" else (lambda x: body(x)) if kind == "static"
                                       else (lambda cls, x: body(cls, x)))
            member = f if kind == "method" else staticmethod(f) if kind == "static" else classmethod(f)
            label = "base attribute m = %s, sub-class defines m as a %s with a precondition" % (value_name, kind)
            try:
                Base = type(icontract.DBC)("Base", (icontract.DBC,), {"m": value})
                Sub = type(icontract.DBC)("Sub", (Base,), {"m": member})
                outs = []
                for arg in (1, -1):
                    del log[:]
                    try:
                        outs.append((("ret", Sub().m(arg)), list(log)))
                    except icontract.ViolationError:
                        outs.append((("violation",), list(log)))
                got = outs
            except BaseException as e:  # noqa
                got = ("definition failed", type(e).__name__, str(e)[:140])
            want = [(("ret", 1), ["pre", "body"]), (("violation",), ["pre"])]
            ctx.case(["plain-attribute", value_name, kind], True, sample={"directed": label, "outcome": str(got)[:120]})
            ctx.count("directed:plain-attribute-cases")
            if got != want:
                ctx.fail("plain-attribute|%s" % kind, {"plain_attribute_case": [value_name, kind]},
                         "%s: expected %r, got %r" % (label, want, got))


def metaclass_name_cases(ctx, only=None):
    """Members named like something the META-class offers (`register` and `mro` of ABCMeta/type, `__call__` - classes are
    callable): the class hierarchy provides no such function, so a precondition on them is the start of a contract, and
    a sub-class overriding them combines with that contract as for any other member."""
    import icontract

    for name in ("register", "mro", "__call__", "__subclasses__", "regular"):
        if only and only != [name]:
            continue
        log = []

        def pre(x):
            log.append("pre")
            return x > 0

        def sub_pre(x):
            log.append("sub-pre")
            return x < -10

        def body(self, x):
            log.append("body")
            return x

        def sub_body(self, x):
            log.append("sub-body")
            return x

        label = "method named %r with a precondition" % name
        try:
            Base = type(icontract.DBC)("Base", (icontract.DBC,), {name: icontract.require(pre)(body)})
            Sub = type(icontract.DBC)("Sub", (Base,), {name: icontract.require(sub_pre)(sub_body)})
            got = []
            for cls, arg in ((Base, 1), (Base, -1), (Sub, 1), (Sub, -20), (Sub, -1)):
                del log[:]
                try:
                    got.append((cls.__name__, arg, getattr(cls(), name)(arg), list(log)))
                except icontract.ViolationError:
                    got.append((cls.__name__, arg, "violation", list(log)))
        except BaseException as e:  # noqa
            got = ("definition failed", type(e).__name__, str(e)[:140])
        want = [("Base", 1, 1, ["pre", "body"]), ("Base", -1, "violation", ["pre"]), ("Sub", 1, 1, ["pre", "sub-body"]),
                ("Sub", -20, -20, ["pre", "sub-pre", "sub-body"]), ("Sub", -1, "violation", ["pre", "sub-pre"])]
        ctx.case(["metaclass-name", name], name != "regular", sample={"directed": label, "outcome": str(got)[:160]})
        ctx.count("directed:metaclass-name-cases")
        if got != want:
            ctx.fail("metaclass-name|%s" % ("regular" if name == "regular" else "meta"), {"metaclass_name_case": [name]},
                     "%s (and an overriding sub-class weakening it): expected %r, got %r" % (label, want, got))


def shared_decorator_cases(ctx, only=None):
    """One decorator OBJECT (`positive = icontract.require(...)`) applied to several functions: the base's member and the
    override both carry the very same contract object, at any position of their stacks. The effective precondition is
    still (all of the base's) OR (all of the override's own); the effective postcondition is every one of both.
    Enumerated: base stack (1..2 of 3 shared decorator objects, ordered) x override stack (0..2, ordered) x all 8 truth
    assignments, for preconditions and for postconditions."""
    import itertools
    import icontract

    T = [True, True, True]

    def mk(i, param):
        # (defs, not lambdas: a lambda stated outside a decorator line is declared unsupported by the message builder)
        ns = {"T": T}
        exec("def cond_%s(%s):\n    return T[%d]" % ("abc"[i], param, i), ns)
        return ns["cond_" + "abc"[i]]

    stacks = [()] + [p for r in (1, 2) for p in itertools.permutations(range(3), r)]
    for what in ("require", "ensure"):
        if what == "require":
            decos = [icontract.require(mk(i, "x"), "shared-%d" % i) for i in range(3)]
        else:
            decos = [icontract.ensure(mk(i, "result"), "shared-%d" % i) for i in range(3)]
        for bstack, sstack in itertools.product(stacks[1:], stacks):
            key = [what, list(bstack), list(sstack)]
            if only and only != key:
                continue
            entered = []

            def bm(self, x):
                entered.append("base")
                return x

            def sm(self, x):
                entered.append("sub")
                return x

            for i in bstack:  # applied bottom-up
                bm = decos[i](bm)
            for i in sstack:
                sm = decos[i](sm)
            try:
                Base = type(icontract.DBC)("Base", (icontract.DBC,), {"m": bm})
                Sub = type(icontract.DBC)("Sub", (Base,), {"m": sm})
            except BaseException as e:  # noqa
                ctx.fail("shared-decorator|%s|definition" % what, {"shared_decorator_case": key},
                         "%s objects shared by base stack %r and override stack %r: class creation raised %s: %s" % (
                             what, bstack, sstack, type(e).__name__, e))
                continue
            bad = []
            for truth in itertools.product((True, False), repeat=3):
                T[:] = truth
                for cls, own in ((Base, None), (Sub, sstack)):
                    if what == "require":
                        accept = all(truth[i] for i in bstack) or (bool(own) and all(truth[i] for i in own))
                    else:
                        accept = all(truth[i] for i in bstack) and all(truth[i] for i in (own or ()))
                    del entered[:]
                    try:
                        cls().m(1)
                        got = "accepted"
                    except icontract.ViolationError:
                        got = "rejected"
                    except BaseException as e:  # noqa
                        got = "%s: %s" % (type(e).__name__, e)
                    body_ok = (entered == ["base" if own is None else "sub"]) if (accept or what == "ensure") else entered == []
                    if got != ("accepted" if accept else "rejected") or not body_ok:
                        bad.append((cls.__name__, truth, got, list(entered)))
            T[:] = [True] * 3
            ctx.case(["shared-decorator"] + key, bool(set(bstack) & set(sstack)),
                     sample={"directed": "shared %s objects: base stack %r, override stack %r" % (what, bstack, sstack)})
            ctx.count("directed:shared-decorator-cases")
            if bad:
                ctx.fail("shared-decorator|%s|%s" % (what, "overlap" if set(bstack) & set(sstack) else "disjoint"),
                         {"shared_decorator_case": key},
                         "%s decorator objects shared among functions, base stack %r, override stack %r (bottom-up): wrong verdict "
                         "for (class, truth of the three conditions, outcome, bodies entered) %r" % (what, bstack, sstack, bad[:4]))


def structural(ctx):
    """Inherited members that are not overridden are the provider's very function object, with its lists."""
    import icontract

    try:
        class A(icontract.DBC):
            @icontract.require(lambda x: x > 0)
            @icontract.ensure(lambda result: result > 0)
            def m(self, x):
                return x

            @icontract.require(lambda x: x > 0)
            def __init__(self, x=1):
                pass

        class B(A):
            pass

        class C(B):
            def __init__(self, x=-1):  # constructor contracts are not inherited
                pass

        class D(B):
            @icontract.require(lambda x: x < 0)  # own constructor preconditions are legal at any level
            def __init__(self, x=-1):
                pass
    except BaseException as e:  # noqa
        ctx.case(["structural", "definition"], True, sample={"directed": "A/B/C/D with constructor contracts"})
        ctx.fail("structural|definition-rejected", {"directed": "definition"},
                 "a hierarchy with constructor preconditions at two levels was rejected: %s: %s" % (type(e).__name__, e))
        return

    ok = B.m is A.m and C.m is A.m
    ctx.case(["structural", "same-function"], True, sample={"directed": "B(A) without override: B.m is A.m"})
    if not ok:
        ctx.fail("structural|same-function", {"directed": "same-function"}, "B.m is not A.m for a non-overriding sub-class")
    try:
        C()
        got = "ok"
    except BaseException as e:  # noqa
        got = "%s: %s" % (type(e).__name__, e)
    ctx.case(["structural", "ctor-not-inherited"], True, sample={"directed": "C.__init__(x=-1) without contracts"})
    if got != "ok":
        ctx.fail("structural|ctor-contracts-inherited", {"directed": "ctor"}, "constructor preconditions were inherited: %s" % got)


def replay(ctx, case):
    if case.get("shared_decorator_case"):
        before = ctx.evaluations
        shared_decorator_cases(ctx, only=case["shared_decorator_case"])
        ctx.evaluations = before + 1
        return
    if case.get("metaclass_name_case"):
        before = ctx.evaluations
        metaclass_name_cases(ctx, only=case["metaclass_name_case"])
        ctx.evaluations = before + 1
        return
    if case.get("plain_attribute_case"):
        before = ctx.evaluations
        plain_attribute_cases(ctx, only=case["plain_attribute_case"])
        ctx.evaluations = before + 1
        return
    if case.get("constructor_case"):
        before = ctx.evaluations
        constructor_cases(ctx, only=case["constructor_case"])
        ctx.evaluations = before + 1
        return
    if case.get("directed"):
        return structural(ctx)
    ctx.divert_known_shapes_on_replay = False  # D24 is recorded under this property: its reproducer is judged here
    D.replay_case(ctx, case, judge)
