"""C17 - defining a class or decorating a function never changes another's contracts. DESIGN 4/C17."""
import inspect

from hypothesis import given, strategies as st

from vf import core, vrt
from vf.progmodel import driver as D
from vf.progmodel import gen as G
from vf.progmodel import harness as H
from vf.progmodel import ref as REF
from vf.progmodel import run as RUN
from vf.props.c18 import resolve_callable, cid_of_contract

ID = "C17"
LEVEL = "exploration"
SHARDS = {"quick": 1, "thorough": 16}
N_QUICK, N_THOROUGH = 250, 2500
RULE = ("case = a HISTORY of definitions: 0..2 decorated functions followed by 2..7 classes over DBC/DBCMeta defined one "
        "after the other (roots, sub-classes of 1..2 earlier classes, siblings, redefinitions with/without own "
        "contracts, invariants of any check_on at any level, constructor contracts). After EVERY definition step, for "
        "every earlier definition: (a) the identities (contract ids) in the precondition groups (outer list and every "
        "group), postconditions, snapshots, __invariants__, __invariants_on_call__ and __invariants_on_setattr__ "
        "equal what they were right after that definition; (b) a probe suite (construct, every member called under "
        "the all-truthy and the all-falsy truth table, attribute assignment) yields the same event traces and "
        "outcomes. non-trivial = history with >=3 classes including a sibling or a multiple-inheritance step, or an "
        "invariant added below a class that has none for that event; distinct = hash(program). Second family (shared "
        "function objects): histories of 2..6 steps over 1..2 plain helper functions - call-style decoration "
        "`g = require|ensure(c)(helper)` repeated on the same helper, stacking on an existing wrapper, and DBC sub-classes "
        "of up to 3 contracted roots that install the helper as the overriding method; after every step every earlier "
        "wrapper/class is probed with each contract falsy in turn: same verdict and same evaluated contracts as before, "
        "and never a contract that was not declared for it.")
ASSUMPTIONS = ["in the progmodel histories a method of an already created DBC class is not decorated again (with two or more "
               "inherited groups the library asserts against it); the shared-object histories do it for one inherited group",
               "before/after comparison of the same library (metamorphic); the reference model is not needed here"]
DECO_KW = dict(n_pre=(0, 2), n_post=(0, 2), n_snap=(0, 1), n_wraps=(0, 1), err_forms=("default", "instance"))
HIER_KW = dict(n_classes=(2, 7), dag=True, with_invs=True, with_init=True, multi_root=True, async_ok=False)
KNOWN = {
    # one contracted FUNCTION OBJECT installed as a member of a class whose bases provide other contracts for the name: the
    # meta-class writes the merged lists onto the shared checker (open finding D45)
    "D45": lambda bucket, case: bucket.startswith("shared-function|"),
}


def list_snapshot(loaded, program, upto, model):
    """Introspection lists of every definition made so far: name -> nested ids."""
    import icontract._checkers as CK

    snap = {}
    mod = loaded.mod
    for f in program.get("funcs", []):
        if loaded.errors.get(f["name"]) is None and f["name"] in mod.__dict__:
            snap["f:" + f["name"]] = checker_lists(CK.find_checker(getattr(mod, f["name"])))
    for ci, c in enumerate(program["classes"][: upto + 1]):
        if loaded.errors.get(c["name"]) is not None or c["name"] not in mod.__dict__:
            continue
        cls = getattr(mod, c["name"])
        keys = set()
        for k in model.mro[ci]:
            keys |= set(model.members(k))
        for key in sorted(keys):
            eff = model.eff(ci, key) if model.def_error.get(ci) is None else None
            if eff is None:
                continue
            try:
                func = resolve_callable(cls, eff["func"])
            except AttributeError:
                continue
            snap["%s.%s/%s" % (c["name"], key[0], key[1])] = checker_lists(CK.find_checker(func))
        for dunder in ("__invariants__", "__invariants_on_call__", "__invariants_on_setattr__"):
            snap["%s.%s" % (c["name"], dunder)] = [cid_of_contract(i) for i in getattr(cls, dunder, [])]
    return snap


def checker_lists(checker):
    if checker is None:
        return None
    return {"pre": [[cid_of_contract(c) for c in g] for g in checker.__preconditions__],
            "post": [cid_of_contract(c) for c in checker.__postconditions__],
            "snaps": [s.name for s in checker.__postcondition_snapshots__]}


def probe_ops(program, model, ci):
    ops = [{"op": "new", "cls": ci, "k": 0, "args": {}}]
    keys = set()
    for k in model.mro[ci]:
        keys |= set(model.members(k))
    for key in sorted(keys):
        if key[0] in ("__init__", "__new__"):
            continue
        eff = model.eff(ci, key)
        if eff is None:
            continue
        f = eff["func"]
        args = {"value": "a:v"} if f["kind"] == "setter" else ({} if f["kind"] in ("getter", "deleter") else {"x": "a:x"})
        ops.append(G.op_for_member(f["kind"], 0, f["name"], args))
    ops.append({"op": "setattr", "k": 0})
    return ops


def run_probes(loaded, program, model, upto, cids):
    """name -> (traces under all-true, under all-false)."""
    out = {}
    t_true = {c: ["T"] for c in cids}
    t_false = {c: ["F"] for c in cids}
    for f in program.get("funcs", []):
        if loaded.errors.get(f["name"]) is None and f["name"] in loaded.mod.__dict__:
            ops = [{"op": "callf", "f": f["name"], "args": {"x": "a:x"}}]
            out["f:" + f["name"]] = [probe(loaded, ops, t) for t in (t_true, t_false)]
    for ci, c in enumerate(program["classes"][: upto + 1]):
        if loaded.errors.get(c["name"]) is not None or model.def_error.get(ci) is not None:
            continue
        ops = probe_ops(program, model, ci)
        res = []
        for t in (t_true, t_false):
            res.append(probe(loaded, ops, t))
        # all-false rejects construction; probe the members on an instance built under the all-true table
        ops2 = [dict(ops[0], truth=t_true)] + [dict(o, truth=t_false) for o in ops[1:]]
        res.append(probe(loaded, ops2, t_true))
        out[c["name"]] = res
    return out


def probe(loaded, ops, truth):
    log, outs, _ = core.in_fresh_thread(lambda: RUN.execute(loaded, ops, truth))
    return ([H.norm_event(e) for e in log], [o[:2] for o in outs])


def check_case(ctx, case):
    program = case["program"]
    try:
        model = REF.Model(program)
    except REF.RefInconsistency:
        ctx.count("skipped:mro_conflict")
        return
    cids = D.all_cids(program)
    names = [c["name"] for c in program["classes"]]
    base_lists = {}
    base_probes = {}
    state = {"failed": False}

    def on_block(loaded, name):
        if state["failed"] or name.startswith("<"):
            return
        upto = names.index(name) if name in names else -1
        lists = list_snapshot(loaded, program, upto, model)
        probes = run_probes(loaded, program, model, upto, cids)
        for k, v in lists.items():
            if k not in base_lists:
                base_lists[k] = v
            elif base_lists[k] != v:
                state["failed"] = True
                ctx.fail("lists-changed|%s|%s" % (k.split(".")[-1].split("/")[-1] if "__inv" in k else "contracts",
                                                 D.struct_sig(case)), strip(case), describe(
                    case, loaded, "after defining %s the introspection lists of the earlier definition %s changed:\n"
                                  " before: %r\n after:  %r" % (name, k, base_lists[k], v)))
                return
        for k, v in probes.items():
            if k not in base_probes:
                base_probes[k] = v
            elif base_probes[k] != v:
                state["failed"] = True
                idx = next(i for i, (a, b) in enumerate(zip(base_probes[k], v)) if a != b)
                ctx.fail("verdicts-changed|%s" % D.struct_sig(case), strip(case), describe(
                    case, loaded, "after defining %s the probe suite of the earlier definition %s behaves differently "
                                  "(probe table %d):\n before: %r\n after:  %r" % (name, k, idx, base_probes[k][idx], v[idx])))
                return

    with RUN.Loaded(program, on_block=on_block):
        pass
    if not state["failed"] and len(names) >= 2:
        # the same program again, nothing called while it is being defined; then the classes are probed in REVERSE order
        # of definition (the first call of an inherited member comes from the most derived class): every class must
        # answer as it did when it was probed right after its own definition
        with RUN.Loaded(program) as loaded2:
            for ci in range(len(names) - 1, -1, -1):
                c = program["classes"][ci]
                if loaded2.errors.get(c["name"]) is not None or model.def_error.get(ci) is not None:
                    continue
                ops = probe_ops(program, model, ci)
                t_true = {x: ["T"] for x in cids}
                t_false = {x: ["F"] for x in cids}
                res = [probe(loaded2, ops, t) for t in (t_true, t_false)]
                res.append(probe(loaded2, [dict(ops[0], truth=t_true)] + [dict(o, truth=t_false) for o in ops[1:]], t_true))
                if c["name"] in base_probes and base_probes[c["name"]] != res:
                    idx = next(i for i, (a, b) in enumerate(zip(base_probes[c["name"]], res)) if a != b)
                    ctx.fail("verdicts-depend-on-who-called-first|%s" % D.struct_sig(case), strip(case), describe(
                        case, loaded2, "probing the classes in reverse order of definition, %s behaves differently from "
                                       "when it was probed right after its definition (probe table %d):\n then: %r\n now:  %r" % (
                                           c["name"], idx, base_probes[c["name"]][idx], res[idx])))
                    break
    nt = nontrivial(program)
    for f in D.program_features(program):
        ctx.count("prog:" + f)
    ctx.count("definition_steps", len(names) + len(program.get("funcs", [])))
    ctx.case(program, nt, sample=lambda: {"classes": [(c["name"], c["bases"], [m["name"] + ":" + m["kind"] for m in c["members"]],
                                                       [i["on"] for i in c["invs"]]) for c in program["classes"]]})


def strip(case):
    return {"program": case["program"], "ops": [], "truth": {}}


def describe(case, loaded, msg):
    t = loaded.text
    return "%s\n--- module ---\n%s" % (msg, t[t.index("import abc") + 11:].strip()[:3500])


def nontrivial(program):
    cl = program["classes"]
    if len(cl) < 3:
        return False
    multi = any(len(c["bases"]) >= 2 for c in cl)
    bases_count = {}
    for c in cl:
        for b in c["bases"]:
            bases_count[b] = bases_count.get(b, 0) + 1
    sibling = any(v >= 2 for v in bases_count.values())
    return multi or sibling


@st.composite
def strategy(draw):
    ids = G.Ids()
    prog, kind, mname = draw(G.st_hierarchy(ids, deco_kw=DECO_KW, **HIER_KW))
    funcs = []
    for i in range(draw(st.integers(0, 2))):
        funcs.append(draw(G.st_func(ids, "f%d" % i, "function", False, **DECO_KW)))
    prog["funcs"] = funcs
    return {"program": prog, "ops": [], "truth": {}}


# ---- histories over SHARED function objects ----------------------------------------------------------------------
# The progmodel programs define every function in place. Here the same undecorated function object is wrapped more than
# once: call-style decoration `g = icontract.require(c)(f)` repeated on one `f`, and one plain helper installed as the
# overriding method in several classes of different hierarchies. Every earlier wrapper / class must keep its verdicts.

class _Viol(Exception):
    def __init__(self, cid):
        super().__init__("violated #%d" % cid)
        self.cid = cid


@st.composite
def st_shared_history(draw):
    steps = []
    n_bare = draw(st.integers(1, 2))
    for _ in range(draw(st.integers(2, 6))):
        kind = draw(st.sampled_from(["dec", "dec", "cls", "cls", "redec", "reuse", "adopt", "posthoc", "partial", "inv"]))
        if kind == "dec":
            steps.append(["dec", draw(st.integers(0, n_bare - 1)), draw(st.sampled_from(["require", "ensure"]))])
        elif kind == "redec":
            steps.append(["redec", draw(st.integers(0, 5)), draw(st.sampled_from(["require", "ensure"]))])
        elif kind == "posthoc":
            # a contract is put on the overriding method of an EXISTING sub-class: Sub.m = require|ensure(c)(Sub.m)
            steps.append(["posthoc", draw(st.integers(0, 5)), draw(st.sampled_from(["require", "ensure"]))])
        elif kind == "inv":
            # a further invariant is put on an EXISTING root class (call form); roots 1 and 2 carry one from the start, so
            # that their sub-classes own merged invariant lists
            steps.append(["inv", draw(st.integers(1, 2))])
        elif kind == "partial":
            # a NEW callable derived with functools.partial from an existing wrapper / a root's method gets a contract
            steps.append(["partial", draw(st.integers(0, 5)), draw(st.sampled_from(["require", "ensure"])),
                          draw(st.sampled_from(["wrapper", "root"]))])
        elif kind == "adopt":
            # a wrapper made (and already called) earlier becomes the overriding method of a new sub-class
            steps.append(["adopt", draw(st.integers(0, 5)), draw(st.integers(0, 2))])
        elif kind == "reuse":
            # the sub-class re-uses the root's method (m = Root.m); with a second root that defines m differently
            step = ["cls", draw(st.integers(0, 2)), -1, "both"]
            if draw(st.booleans()):
                step.append(draw(st.integers(0, 2)))
            steps.append(step)
        else:
            step = ["cls", draw(st.integers(0, 2)), draw(st.integers(0, n_bare - 1)),
                    draw(st.sampled_from(["pre", "post", "both"]))]
            if draw(st.integers(0, 3)) == 0:
                step.append(draw(st.integers(0, 2)))  # a second root: class Sub(Root_a, Root_b)
            steps.append(step)
    return {"shared_history": steps, "n_bare": n_bare}


def _check_shared_history(ctx, case):
    import icontract

    T, LOG = {}, []
    nxt = [0]

    def new_cid():
        nxt[0] += 1
        T[nxt[0]] = True
        return nxt[0]

    def mk_cond(cid, post=False):
        if post:
            def cond(result):
                LOG.append(cid)
                return T[cid]
        else:
            def cond(x):
                LOG.append(cid)
                return T[cid]
        return cond

    def mk_bare(k):
        def helper(self, x):
            LOG.append("body%d" % k)
            return k
        helper.__name__ = "helper%d" % k
        return helper

    bares = [mk_bare(k) for k in range(case["n_bare"])]
    objs = {}   # name -> callable(x) probing the definition
    own = {}    # name -> set of cids that may be evaluated by that definition
    expect = {}  # name -> what exactly is evaluated when every contract holds (None: not modelled)
    gspec = {}  # wrapper name -> (helper index, role, cid, decorated function)
    subs = {}   # sub-classes (one root, helper as own override) whose method may get a contract after class creation
    roots = {}
    base = {}
    wrappers = []
    derived = {}  # wrapper name -> partial-derived callables that call it (what legitimately changes it changes them)

    def touch_derived(name, cids):
        for h in derived.get(name, []):
            own[h] = own[h] | set(cids)
            base.pop(h, None)
            expect[h] = None

    def probe_all():
        out = {}
        for name, fn in objs.items():
            res = []
            tables = [None] + sorted(T)
            for falsy in tables:
                for c in T:
                    T[c] = c != falsy
                del LOG[:]
                try:
                    r = fn(1)
                    o = ("ret", r)
                except _Viol as e:
                    o = ("violation", e.cid)
                except Exception as e:  # noqa
                    o = ("exc", type(e).__name__, str(e)[:80])
                res.append((falsy, o, tuple(LOG)))
            for c in T:
                T[c] = True
            out[name] = res
        return out

    def mk_inv(cid):
        def cond(self):
            LOG.append(cid)
            return T[cid]
        return cond

    with_inv = {}  # root -> cids of its invariants (roots 1 and 2 are born with one)

    def make_root(rr):
        cp, cq = new_cid(), new_cid()

        class Root(icontract.DBC):
            @icontract.require(mk_cond(cp), error=_Viol(cp))
            @icontract.ensure(mk_cond(cq, True), error=_Viol(cq))
            def m(self, x):
                LOG.append("root-body")
                return -1
        Root.__name__ = "Root%d" % rr
        rc = {cp, cq}
        if rr >= 1:
            ci = new_cid()
            Root = icontract.invariant(mk_inv(ci), error=_Viol(ci))(Root)
            rc.add(ci)
            with_inv[rr] = [ci]
        roots[rr] = (Root, rc, (cp, cq))
        objs["Root%d" % rr] = (lambda K: lambda x: K().m(x))(Root)
        own["Root%d" % rr] = set(rc)
        expect["Root%d" % rr] = [cp, "root-body", cq] if rr not in with_inv else None
        for nme, v in probe_all().items():
            base.setdefault(nme, v)

    steps = case["shared_history"]
    feats = set()
    for si, st_ in enumerate(steps):
        label = "step %d %r" % (si, st_)
        if st_[0] == "dec":
            _, k, role = st_
            cid = new_cid()
            deco = (icontract.require(mk_cond(cid), error=_Viol(cid)) if role == "require" else
                    icontract.ensure(mk_cond(cid, True), error=_Viol(cid)))
            g = deco(bares[k])
            name = "g%d" % si
            wrappers.append(name)
            objs[name] = (lambda g: lambda x: g(None, x))(g)
            own[name] = {cid}
            gspec[name] = (k, role, cid, g)
            expect[name] = [cid, "body%d" % k] if role == "require" else ["body%d" % k, cid]
            if sum(1 for s in steps[:si + 1] if s[0] == "dec" and s[1] == k) >= 2:
                feats.add("same-function-decorated-twice")
        elif st_[0] == "redec":
            # stacking on an EXISTING wrapper is decoration of that function itself: it legitimately changes it, and only it
            if not wrappers:
                continue
            name = wrappers[st_[1] % len(wrappers)]
            cid = new_cid()
            role = st_[2]
            deco = (icontract.require(mk_cond(cid), error=_Viol(cid)) if role == "require" else
                    icontract.ensure(mk_cond(cid, True), error=_Viol(cid)))
            inner = objs[name]
            g2 = deco(inner.__closure__[0].cell_contents)
            objs[name] = (lambda g: lambda x: g(None, x))(g2)
            own[name] = own[name] | {cid}
            base.pop(name, None)
            expect[name] = None
            gspec.pop(name, None)
            touch_derived(name, {cid})
            feats.add("stacked-on-existing-wrapper")
        elif st_[0] == "posthoc":
            cands = sorted(subs)
            if not cands:
                continue
            sub = cands[st_[1] % len(cands)]
            Sub = subs[sub]
            cid = new_cid()
            role = st_[2]
            deco = (icontract.require(mk_cond(cid), error=_Viol(cid)) if role == "require" else
                    icontract.ensure(mk_cond(cid, True), error=_Viol(cid)))
            Sub.m = deco(Sub.__dict__["m"])
            own[sub] = own[sub] | {cid}
            base.pop(sub, None)
            expect[sub] = None
            subs.pop(sub)  # one post-hoc decoration per class
            feats.add("contract-added-to-a-method-of-an-existing-sub-class")
        elif st_[0] == "inv":
            r = st_[1]
            if r not in roots:
                make_root(r)
            Root, rc, cpq = roots[r]
            cj = new_cid()
            icontract.invariant(mk_inv(cj), error=_Viol(cj))(Root)
            roots[r] = (Root, rc | {cj}, cpq)  # classes defined from now on inherit it; the existing ones do not change
            with_inv[r].append(cj)
            own["Root%d" % r] = own["Root%d" % r] | {cj}
            base.pop("Root%d" % r, None)
            expect["Root%d" % r] = None
            # what hangs on Root.m itself (partials of it) legitimately follows
            for nme in list(objs):
                if nme.startswith("h") and getattr(objs[nme], "_src", None) == "Root%d" % r:
                    own[nme] = own[nme] | {cj}
                    base.pop(nme, None)
                    expect[nme] = None
            feats.add("invariant-added-to-an-existing-base-class")
        elif st_[0] == "partial":
            import functools

            cid = new_cid()
            role = st_[2]
            deco = (icontract.require(mk_cond(cid), error=_Viol(cid)) if role == "require" else
                    icontract.ensure(mk_cond(cid, True), error=_Viol(cid)))
            if st_[3] == "wrapper":
                cands = [n for n in wrappers if n in gspec]
                if not cands:
                    continue
                src = cands[st_[1] % len(cands)]
                part = functools.partial(gspec[src][3], None)
                derived.setdefault(src, []).append("h%d" % si)
            else:
                r = st_[1] % 3
                if r not in roots:
                    make_root(r)
                src = "Root%d" % r
                part = functools.partial(roots[r][0].m, roots[r][0]())
            h = deco(part)
            name = "h%d" % si
            objs[name] = (lambda h: lambda x: h(x))(h)
            objs[name]._src = src
            own[name] = own[src] | {cid}
            expect[name] = None if expect.get(src) is None else (
                [cid] + expect[src] if role == "require" else expect[src] + [cid])
            feats.add("contract-on-a-partial-of-an-existing-callable")
        elif st_[0] == "adopt":
            cands = [n for n in wrappers if n in gspec]
            if not cands:
                continue
            name = cands[st_[1] % len(cands)]
            k, role, gcid, g = gspec[name]
            r = st_[2]
            if r not in roots:
                make_root(r)
            Root, rc, (cp, cq) = roots[r]
            Sub = type(Root)("Sub%d" % si, (Root,), {"m": g})
            sub = "Sub%d" % si
            objs[sub] = (lambda K: lambda x: K().m(x))(Sub)
            own[sub] = set(rc) | {gcid}
            expect[sub] = ([cp, "body%d" % k, cq] + ([gcid] if role == "ensure" else [])) if r not in with_inv else None
            # the function object itself now carries the inherited contracts as well (it IS Sub.m)
            own[name] = own[name] | set(rc)
            base.pop(name, None)
            expect[name] = None
            gspec.pop(name, None)
            touch_derived(name, rc)
            wrappers.remove(name)  # stacking more contracts on it later would (legitimately) change Sub.m as well
            feats.add("called-wrapper-adopted-as-method")
        else:
            r, k = st_[1], st_[2]
            r2 = st_[4] if len(st_) > 4 and st_[4] != r else None
            for rr in [r] + ([r2] if r2 is not None else []):
                if rr not in roots:
                    make_root(rr)
            Root, rc, (cp, cq) = roots[r]
            bases_ = (Root,) + ((roots[r2][0],) if r2 is not None else ())
            exp = [cp, "body%d" % k if k >= 0 else "root-body", cq]
            if r2 is not None:
                feats.add("two-roots")
                if k >= 0:
                    rc = rc | roots[r2][1]  # an override inherits from both; a re-used Root.m stays Root's
                    exp.append(roots[r2][2][1])
            ns = {"m": bares[k] if k >= 0 else Root.__dict__["m"]}
            if k < 0:
                feats.add("base-method-re-used-as-is")
            Sub = type(Root)("Sub%d" % si, bases_, ns)
            objs["Sub%d" % si] = (lambda K: lambda x: K().m(x))(Sub)
            # (the invariants of every base belong to the class, whoever provides the method)
            own["Sub%d" % si] = set(rc) | set(with_inv.get(r2, []) if r2 is not None else [])
            expect["Sub%d" % si] = exp if not (r in with_inv or r2 in with_inv) else None
            if k >= 0 and r2 is None:
                subs["Sub%d" % si] = Sub  # own function, one inherited group: may be decorated later on
            if k >= 0 and sum(1 for s in steps[:si + 1] if s[0] == "cls" and s[2] == k) >= 2:
                feats.add("helper-installed-in-two-classes")
            if k >= 0 and (any(s[0] == "dec" and s[1] == k for s in steps[:si]) or
                           any(s[0] == "cls" and s[2] == k for s in steps[:si])):
                feats.add("helper-also-wrapped-elsewhere")
        snap = probe_all()
        for name, v in snap.items():
            # absolute: a definition only ever evaluates its own contracts
            for falsy, o, log in v:
                if falsy is None and expect.get(name) is not None and list(log) != expect[name]:
                    ctx.fail("shared|evaluated-contracts", case, "%s: with every contract holding %s evaluates %r, its "
                             "declaration and its bases imply %r\nhistory: %r" % (label, name, list(log), expect[name], steps))
                    return feats
                foreign = [c for c in log if isinstance(c, int) and c not in own[name]]
                if foreign:
                    ctx.fail("shared|foreign-contract-evaluated", case, "%s: %s evaluates contract(s) %r that were never "
                             "declared for it (its own: %r)\nhistory: %r" % (label, name, foreign, sorted(own[name]), steps))
                    return feats
            if name not in base:
                base[name] = v
                continue
            old = {f: (o, log) for f, o, log in base[name]}
            for falsy, o, log in v:
                if falsy in old and old[falsy] != (o, log):
                    ctx.fail("shared|verdicts-changed|%s" % st_[0], case,
                             "%s changed the earlier definition %s: with contract #%s falsy it gave %r (evaluated %r), now "
                             "%r (evaluated %r)\nhistory: %r" % (label, name, falsy, old[falsy][0], old[falsy][1], o, log, steps))
                    return feats
    return feats


def directed_programs():
    """Enumerated histories around a mix-in: Base (with / without an invariant), a mix-in root without invariants, a
    sub-class over both in either order that adds an invariant of every check_on, then a sibling and a grand-child."""
    import itertools

    def inv(cid, on):
        return {"cid": cid, "on": on, "lam": False, "selfarg": True, "err": {"form": "default"}}

    def meth(name):
        params, defaults = G.params_of("method")
        return {"name": name, "kind": "method", "async": False, "params": params, "defaults": defaults, "decos": [],
                "body": {"ret": "obj"}}

    for base_on, own_on, order, mix_root in itertools.product((None, "CALL", "SETATTR", "ALL"), ("CALL", "SETATTR", "ALL"),
                                                            ("base-first", "mixin-first"), ("DBC", "meta")):
        classes = [
            {"name": "K0", "bases": [], "root": "DBC", "shape": "plain", "invs": [inv(1, base_on)] if base_on else [],
             "members": [meth("m")]},
            {"name": "K1", "bases": [], "root": mix_root, "shape": "plain", "invs": [], "members": [meth("mix")]},
            {"name": "K2", "bases": [0, 1] if order == "base-first" else [1, 0], "root": "DBC", "shape": "plain",
             "invs": [inv(2, own_on)], "members": []},
            {"name": "K3", "bases": [0], "root": "DBC", "shape": "plain", "invs": [], "members": [meth("n")]},
            {"name": "K4", "bases": [2], "root": "DBC", "shape": "plain", "invs": [inv(3, "CALL")], "members": []},
        ]
        yield {"program": {"funcs": [], "classes": classes}, "ops": [], "truth": {},
               "directed": [base_on, own_on, order, mix_root]}


def check_shared_history(ctx, case):
    """Every step of such a history is legitimate use: a step the library rejects is reported, not a harness error."""
    try:
        return _check_shared_history(ctx, case)
    except core.HarnessError:
        raise
    except Exception as e:  # noqa
        ctx.fail("shared|step-rejected|%s" % type(e).__name__, case, "a decoration / class definition of the history was "
                 "rejected by the library: %s: %s\nhistory: %r" % (type(e).__name__, str(e)[:400], case["shared_history"]))
        return {"step-rejected"}


def run(ctx, tier, seed, shard, nshards):
    n = N_QUICK if tier == "quick" else N_THOROUGH

    @given(st_shared_history())
    def test_shared(case):
        feats = check_shared_history(ctx, case)
        for f in feats or ():
            ctx.count("shared:" + f)
        ctx.case(case, bool(feats), sample=lambda: {"shared_history": case["shared_history"]})

    core.run_hypothesis(test_shared, seed, n * 2)
    if shard == 0:
        for case in directed_programs():
            check_case(ctx, case)
        ctx.count("directed_mixin_histories", 48)
        shared_function_cases(ctx)
        property_posthoc_cases(ctx)
        late_invariant_cases(ctx)
        recreated_then_decorated_cases(ctx)

    @given(strategy())
    def test(case):
        check_case(ctx, case)

    core.run_hypothesis(test, seed, n)


def property_posthoc_cases(ctx, only=None):
    """A precondition added to a property accessor AFTER the classes exist (require(c)(Sub.p.fset) / (Base.p.fset)) belongs
    to that accessor alone: the base, the sub-class and a sibling keep evaluating exactly what they evaluated before."""
    import icontract

    for accessor in ("fget", "fset", "fdel"):
        for target in ("sub-class", "base"):
            if only and only != [accessor, target]:
                continue
            log = []

            def cond(tag):
                if accessor == "fset":
                    def c(self, value):
                        log.append(tag)
                        return True
                else:
                    def c(self):
                        log.append(tag)
                        return True
                return c

            def prop(who, contracted):
                def getter(self):
                    return 1

                def setter(self, value):
                    pass

                def deleter(self):
                    pass
                fs = {"fget": getter, "fset": setter, "fdel": deleter}
                if contracted:
                    fs[accessor] = icontract.require(cond(who + "-pre"))(fs[accessor])
                return property(fs["fget"], fs["fset"], fs["fdel"])

            Base = type(icontract.DBC)("Base", (icontract.DBC,), {"p": prop("base", True)})
            Sub = type(icontract.DBC)("Sub", (Base,), {"p": prop("sub", False)})
            Sib = type(icontract.DBC)("Sib", (Base,), {"p": prop("sib", False)})

            def probe():
                out = {}
                for K in (Base, Sub, Sib):
                    del log[:]
                    o = K()
                    if accessor == "fget":
                        o.p
                    elif accessor == "fset":
                        o.p = 3
                    else:
                        del o.p
                    out[K.__name__] = list(log)
                return out

            before = probe()
            owner = Sub if target == "sub-class" else Base
            icontract.require(cond("later-pre"))(getattr(owner.__dict__["p"], accessor))
            after = probe()
            label = "a precondition added later to %s.p.%s" % (owner.__name__, accessor)
            ctx.case(["property-posthoc", accessor, target], True, sample={"directed": label, "before": before, "after": after})
            ctx.count("directed:property-posthoc-cases")
            for name in ("Base", "Sub", "Sib"):
                if name == owner.__name__:
                    continue
                if after[name] != before[name]:
                    ctx.fail("property-posthoc|%s|%s-changed" % (accessor, name), {"property_posthoc": [accessor, target]},
                             "%s changed %s: it evaluated %r before and %r afterwards" % (label, name, before[name], after[name]))
                    break


def late_invariant_cases(ctx, only=None):
    """Invariants added in call form after the classes exist, to a hierarchy that had none when the sub-class was created:
    an invariant put on the SUB-class afterwards is the sub-class' alone - the base (and a sibling) keep their verdicts."""
    import icontract

    for order in ("base first", "sub-class first", "sub-class only"):
        if only and only != order:
            continue
        log = []

        def inv(tag):
            def c(self):
                log.append(tag)
                return True
            return c

        A = type(icontract.DBC)("A", (icontract.DBC,), {"__init__": lambda self: None, "m": lambda self: 1})
        B = type(icontract.DBC)("B", (A,), {})
        S = type(icontract.DBC)("S", (A,), {})
        if order == "base first":
            icontract.invariant(inv("a"))(A)
            icontract.invariant(inv("b"))(B)
            want = {"A": {"a"}, "B": {"a", "b"}, "S": {"a"}}
        elif order == "sub-class first":
            icontract.invariant(inv("b"))(B)
            icontract.invariant(inv("a"))(A)
            want = {"A": {"a"}, "B": {"b"}, "S": {"a"}}  # (B owns its list by then; what it inherits later is not ours to say)
        else:
            icontract.invariant(inv("b"))(B)
            want = {"A": set(), "B": {"b"}, "S": set()}
        got = {}
        for K in (A, B, S):
            del log[:]
            try:
                K().m()
                got[K.__name__] = set(log)
            except BaseException as e:  # noqa
                got[K.__name__] = "%s: %s" % (type(e).__name__, e)
        label = "invariants added after the classes exist (%s)" % order
        ctx.case(["late-invariant", order], True, sample={"directed": label, "evaluated": {k: sorted(v) if isinstance(v, set) else v for k, v in got.items()}})
        ctx.count("directed:late-invariant-cases")
        for name in ("A", "S") + (("B",) if order != "sub-class first" else ()):
            if got[name] != want[name]:
                ctx.fail("late-invariant|%s|%s" % (order.split()[0], name), {"late_invariant": order},
                         "%s: class %s evaluates the invariants %r, expected %r (all: %r)" % (label, name, got[name], want[name], got))
                break


def recreated_then_decorated_cases(ctx, only=None):
    """A class with invariants is created ANEW from its namespace while the original stays in use (what
    dataclasses.dataclass(slots=True) does; type(cls)(name, bases, dict(vars(cls)))) and an invariant is afterwards added to
    one of the two: the other one - defined before that moment - keeps its verdicts. Enumerated: how the class is re-created
    x where its invariants come from (own / inherited / both) x which of the two gets the new invariant x check_on."""
    import dataclasses
    import itertools
    import icontract

    for how, origin, target, on in itertools.product(("dataclass-slots", "type-call"), ("own", "inherited", "both"),
                                                     ("re-created", "original"), ("CALL", "SETATTR", "ALL")):
        key = [how, origin, target, on]
        if only is not None and only != key:
            continue
        log = []

        def inv(tag):
            def c(self):
                log.append(tag)
                return True
            return c

        try:
            Base = type(icontract.DBC)("Base", (icontract.DBC,), {"__init__": lambda self: None, "m": lambda self: 1})
            if origin in ("inherited", "both"):
                Base = icontract.invariant(inv("base"), check_on=icontract.InvariantCheckEvent.ALL)(Base)
            ns = {"m": lambda self: 1, "__annotations__": {}}
            if how == "type-call":
                ns["__init__"] = lambda self: None
            Orig = type(icontract.DBC)("Orig", (Base,), ns)
            if origin in ("own", "both"):
                Orig = icontract.invariant(inv("own"), check_on=icontract.InvariantCheckEvent.ALL)(Orig)
            if how == "dataclass-slots":
                New = dataclasses.dataclass(slots=True)(Orig)
            else:
                New = type(Orig)(Orig.__name__, Orig.__bases__, {k: v for k, v in vars(Orig).items() if k not in ("__dict__", "__weakref__")})
            if New is Orig:
                raise RuntimeError("the class was not re-created")

            def probe(K):
                out = []
                o = K()
                del log[:]
                o.m()
                out.append(sorted(set(log)))
                del log[:]
                try:
                    o.attr = 1
                except AttributeError:  # __slots__
                    pass
                out.append(sorted(set(log)))
                return out

            other = Orig if target == "re-created" else New
            before = probe(other)
            icontract.invariant(inv("late"), check_on=getattr(icontract.InvariantCheckEvent, on))(New if target == "re-created" else Orig)
            after = probe(other)
            mine = probe(New if target == "re-created" else Orig)
            got = (before, after, "late" in mine[0] or "late" in mine[1])
        except BaseException as e:  # noqa
            before, after, got = None, "%s: %s" % (type(e).__name__, e), None
        label = "class with %s invariants re-created by %s, then an invariant (check_on=%s) is added to the %s class" % (origin, how, on, target)
        ctx.case(["recreated-then-decorated"] + key, True, sample={"directed": label, "other class before/after": [before, after]})
        ctx.count("directed:recreated-then-decorated")
        if got is None or before != after or not got[2]:
            ctx.fail("recreated-then-decorated|%s|%s|%s" % (how, origin, target), {"recreated_then_decorated": key},
                     "%s: the OTHER class evaluated (around a call, around an assignment) %r before and %r afterwards; the new "
                     "invariant reached its own class: %s" % (label, before, after, got and got[2]))


def shared_function_cases(ctx, only=None):
    """One contracted function object used as a member of a later class whose bases provide OTHER contracts for that
    name (an alias of a grand-parent's method below an intermediate override, an alias under another name, a contracted
    module-level function, the same function in two unrelated hierarchies): whoever owned the function before keeps its
    verdicts."""
    import icontract

    def variant(name):
        log = []

        def post(tag, pred):
            def c(result):
                log.append(tag)
                return pred(result)
            return c

        def pre(tag, pred):
            def c(x):
                log.append(tag)
                return pred(x)
            return c

        class Base(icontract.DBC):
            @icontract.ensure(post("base-post", lambda r: r > 0))
            def f(self, x):
                return x

            @icontract.ensure(post("g-post", lambda r: r < 100))
            def g(self, x):
                return x

        if name == "alias of the grand-parent's method":
            probe = lambda: Base().f(500)  # noqa
            before = probe()

            class Mid(Base):
                @icontract.ensure(post("mid-post", lambda r: r < 100))
                def f(self, x):
                    return x

            type(icontract.DBC)("Sub", (Mid,), {"f": Base.f})
        elif name == "alias under another name":
            probe = lambda: Base().f(500)  # noqa
            before = probe()
            type(icontract.DBC)("S", (Base,), {"g": Base.f})
        elif name == "contracted module-level function":
            helper = icontract.ensure(post("helper-post", lambda r: r != 7))(lambda self, x: x)
            probe = lambda: helper(None, -5)  # noqa
            before = probe()
            type(icontract.DBC)("Sub", (Base,), {"f": helper})
        else:
            shared = icontract.require(pre("shared-pre", lambda x: x > 0))(lambda self, x: x)
            A = type(icontract.DBC)("A", (icontract.DBC,), {"f": shared})

            def probe():
                try:
                    return A().f(-200)
                except icontract.ViolationError:
                    return "violation"
            before = probe()

            class Base2(icontract.DBC):
                @icontract.require(pre("base2-pre", lambda x: x < -100))
                def f(self, x):
                    return x

            type(icontract.DBC)("B", (Base2,), {"f": shared})
        try:
            after = probe()
        except icontract.ViolationError:
            after = "violation"
        return before, after

    for name in ("alias of the grand-parent's method", "alias under another name", "contracted module-level function",
                 "same function in two unrelated hierarchies"):
        if only and only != name:
            continue
        try:
            before, after = variant(name)
        except BaseException as e:  # noqa
            before, after = "ok", "%s: %s" % (type(e).__name__, str(e)[:120])
        ctx.case(["shared-function", name], True, sample={"directed": "shared function object: " + name, "before": str(before), "after": str(after)})
        ctx.count("directed:shared-function-cases")
        if before != after:
            ctx.fail("shared-function|%s" % name, {"shared_function": name},
                     "%s: the earlier definition answered %r before the later class was created and %r afterwards" % (name, before, after))


def replay(ctx, case):
    if case.get("recreated_then_decorated"):
        before = ctx.evaluations
        recreated_then_decorated_cases(ctx, only=case["recreated_then_decorated"])
        ctx.evaluations = before + 1
        return
    if case.get("late_invariant"):
        before = ctx.evaluations
        late_invariant_cases(ctx, only=case["late_invariant"])
        ctx.evaluations = before + 1
        return
    if case.get("property_posthoc"):
        before = ctx.evaluations
        property_posthoc_cases(ctx, only=case["property_posthoc"])
        ctx.evaluations = before + 1
        return
    if case.get("shared_function"):
        before = ctx.evaluations
        shared_function_cases(ctx, only=case["shared_function"])
        ctx.evaluations = before + 1
        return
    if "shared_history" in case:
        check_shared_history(ctx, case)
        return
    check_case(ctx, case)
