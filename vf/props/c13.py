"""C13 - async callables get the same contract semantics as sync ones. DESIGN 4/C13."""
import copy
import warnings

from hypothesis import strategies as st

from vf import core
from vf.progmodel import driver as D
from vf.progmodel import gen as G
from vf.progmodel import harness as H
from vf.progmodel import ref as REF
from vf.progmodel import run as RUN
from vf.props import _single as S

ID = "C13"
LEVEL = "exploration"
SHARDS = {"quick": 1, "thorough": 16}
N_QUICK, N_THOROUGH = 300, 2000
RULE = ("three generated families, all truth assignments (2^n, n<=6; sampled above): (A) paired rendering - a program "
        "of the C01-C04/C08/C09 families (function, or DBC DAG with a method/static/class method, stacks, snapshots, "
        "error forms, invariants) rendered once with `def` and once with `async def`; oracle = event trace and outcome "
        "of the awaited async rendering equal those of the sync rendering (metamorphic) and the reference; (B) "
        "flavours - on async callables every condition/capture is drawn from {sync, coroutine function, sync returning "
        "a coroutine, sync returning a non-coroutine awaitable, sync returning a done Future}; oracle = reference trace "
        "(each awaited, its RESULT judged); (C) the two coroutine flavours on sync callables -> ValueError, body not "
        "run, when the evaluation reaches them; (D) recursion pairs - the re-entrant call graphs of C10 (contracts and "
        "bodies calling contracted callables again) rendered sync and async must give the same trace and outcomes; (E) "
        "signature pairs - signatures and call shapes of the C05 space as def and async def: every callback receives "
        "the same values. non-trivial = a falsy contract in an async rendering, or a non-sync "
        "flavour that is reached; distinct = hash(family, program, ops, assignment).")
ASSUMPTIONS = ["coroutines never really suspend here (driven with send(None)); real suspension is C12's business",
               "conditions with a non-sync flavour are named functions or carry an own error (documented requirement)"]
DECO_KW = dict(n_pre=(0, 3), n_post=(0, 3), n_snap=(0, 2), n_wraps=(0, 1),
               err_forms=("default", "class", "instance", "lambda", "def"))
HIER_KW = dict(n_classes=(1, 4), dag=True, with_invs=True, with_init=True, kinds=("method", "static", "class"),
               async_ok=False, multi_root=True)
FLAVORS = ("sync", "corofunc", "ret_coro", "awaitable", "future")
CAP_FLAVORS = ("sync", "corofunc", "ret_coro", "awaitable")
KNOWN = {
    "D16": lambda bucket, case: bucket.startswith("flavours|") and "nonco-awaitable" in bucket,
}


def set_async(program, value):
    p = copy.deepcopy(program)
    fs = list(p.get("funcs", []))
    for c in p.get("classes", []):
        fs += [f for f in c.get("members", []) if f["kind"] in ("method", "static", "class")]
    for f in fs:
        f["async"] = value
        if (f.get("body") or {}).get("raise") == "StopIteration":
            f["body"]["raise"] = "KeyError"  # PEP 479: not a legal way out of a coroutine
    return p


def flavours_used(program):
    out = set()
    for f in list(program.get("funcs", [])) + [m for c in program.get("classes", []) for m in c.get("members", [])]:
        for d in f.get("decos", []):
            if d.get("flavor", "sync") != "sync":
                out.add(d["flavor"])
    return out


def judge_pair(ctx, case, truth, res_async, model):
    """res_async: the async rendering; the sync twin is run here."""
    if res_async.def_mismatch:
        return
    sig = D.struct_sig(case)
    prog_sync = set_async(case["program"], False)
    res_sync = H.run_case(prog_sync, case["ops"], truth)
    a_log, s_log = res_async.real_log, res_sync.real_log
    if a_log != s_log:
        d = H.first_diff(s_log, a_log)
        ctx.fail("pair-trace|%s|sync:%s|async:%s" % (sig, S.ev_short(d[1]), S.ev_short(d[2])), case, D.describe(
            case, res_async, "sync and async renderings evaluate differently at event %d\n sync:  %r\n async: %r\n"
                             "sync trace:\n%s\nasync trace:\n%s" % (d[0], d[1], d[2], H.fmt_trace(s_log), H.fmt_trace(a_log))))
        return
    for i, (so, ao) in enumerate(zip(res_sync.real_outs, res_async.real_outs)):
        if so[:2] != ao[:2]:
            ctx.fail("pair-outcome|%s|sync:%s|async:%s" % (sig, so[0], ao[0]), case, D.describe(
                case, res_async, "op %d %r: sync rendering -> %r, async rendering -> %r" % (i, case["ops"][i], so[:2], ao[:2])))
            return
    S.judge_c16(ctx, case, truth, res_async, model)


def judge_flavours(ctx, case, truth, res, model):
    if res.def_mismatch:
        return
    used = flavours_used(case["program"])
    tag = "nonco-awaitable" if used & {"awaitable", "future"} else "coroutines"
    before = set(ctx.failures)
    S.judge_c16(ctx, case, truth, res, model)
    for b in list(ctx.failures):
        if b not in before:
            f = ctx.failures.pop(b)
            nb = "flavours|%s|%s" % (tag, b)
            f.bucket = nb
            ctx.failures[nb] = f
            ctx.failure_counts[nb] = ctx.failure_counts.pop(b, 1)


@st.composite
def st_pair_case(draw):
    case = draw(st.one_of(D.st_function_case(DECO_KW, async_ok=False), D.st_class_case(DECO_KW, HIER_KW)))
    case["program"] = set_async(case["program"], True)
    case["family"] = "pair"
    return case


@st.composite
def st_flavour_case(draw, is_async):
    kw = dict(DECO_KW)
    if is_async:
        kw["flavors"] = FLAVORS if "D16" not in _active else ("sync", "corofunc", "ret_coro")
        kw["cap_flavors"] = CAP_FLAVORS if "D16" not in _active else ("sync", "corofunc", "ret_coro")
    else:
        kw["flavors"] = ("sync", "sync", "corofunc", "ret_coro")
        kw["cap_flavors"] = ("sync", "sync", "corofunc", "ret_coro")
    kw["err_forms"] = ("default", "instance", "def")
    hk = dict(HIER_KW)
    hk["with_init"] = False
    hk["with_invs"] = False
    case = draw(st.one_of(D.st_function_case(kw, async_ok=False), D.st_class_case(kw, hk)))
    case["program"] = set_async(case["program"], is_async)
    case["family"] = "flavours-async" if is_async else "flavours-sync"
    return case


_active = set()


def nontrivial(case, truth, res, mask, n):
    falsy = n - bin(mask).count("1")
    if case.get("family") == "pair":
        return falsy >= 1
    return bool(flavours_used(case["program"]))


def run_recursion_pairs(ctx, tier, seed, n):
    """Family (D): the call graphs of C10 (conditions, captures, error factories, invariants and bodies that call contracted
    functions/methods again, bodies bounded by fuel) rendered sync and async; both renderings must evaluate the same."""
    import sys

    from hypothesis import given
    from vf.props import c10

    sys.setrecursionlimit(60000)

    @st.composite
    def st_full(draw):
        case = draw(c10.st_case())
        cids = D.all_cids(case["program"])
        case["masks"] = draw(D.st_masks(len(cids), 4 if tier == "quick" else 6, 8))
        return case

    @given(st_full())
    def test(case):
        cids = D.all_cids(case["program"])
        codes = {int(k): v for k, v in case["codes"].items()}
        feats = c10.features(case)
        for mask in case["masks"]:
            truth = D.truth_for(cids, codes, mask)
            check_recursion_pair(ctx, dict(case, truth=truth, family="recursion-pair"))
            ctx.case(["recursion-pair", case["program"], case["scripts"], case["ops"], case["fuel"], mask],
                     bool(feats & {"body-recursion", "cycle-through-contract"}), sample=lambda: {
                         "family": "recursion-pair", "ops": case["ops"], "scripts": case["scripts"], "fuel": case["fuel"],
                         "truth": truth})
            for f in feats:
                ctx.count("recursion-pair:" + f)

    core.run_hypothesis(test, seed, n)


def check_recursion_pair(ctx, case):
    from vf.props import c10

    scripts = {tuple(k): v for k, v in case["scripts"]}
    truth = {int(k): v for k, v in case["truth"].items()}
    runs = []
    for is_async in (False, True):
        prog = set_async(case["program"], is_async)
        try:
            runs.append(H.run_case(prog, case["ops"], truth, model=REF.Model(prog), scripts=scripts, fuel=case["fuel"],
                                   stack_mb=256, event_budget=6000, ref_kw={"event_budget": 1200}))
        except REF.RefInconsistency:
            ctx.count("skipped:reference_too_large")
            return
    rs, ra = runs
    if any(o[0] == "exc" and o[1][0] == "nonterminating" for r in runs for o in r.real_outs):
        ctx.count("skipped:nonterminating(C10's business)")
        return
    tag = ",".join(sorted(c10.features(case)))
    c = {k: case[k] for k in ("program", "ops", "scripts", "fuel")}
    c["truth"] = truth
    c["family"] = "recursion-pair"
    if rs.real_log != ra.real_log:
        d = H.first_diff(rs.real_log, ra.real_log)
        ctx.fail("recursion-pair-trace|%s|sync:%s|async:%s" % (tag, S.ev_short(d[1]), S.ev_short(d[2])), c, c10.describe(
            c, ra, "sync and async renderings of a re-entrant call graph evaluate differently at event %d\n sync:  %r\n "
                   "async: %r\nsync trace:\n%s\nasync trace:\n%s" % (d[0], d[1], d[2], H.fmt_trace(rs.real_log, 60),
                                                                     H.fmt_trace(ra.real_log, 60))))
        return
    for i, (so, ao) in enumerate(zip(rs.real_outs, ra.real_outs)):
        if so[:2] != ao[:2]:
            ctx.fail("recursion-pair-outcome|%s|sync:%s|async:%s" % (tag, so[0], ao[0]), c, c10.describe(
                c, ra, "op %d %r: sync rendering -> %r, async rendering -> %r" % (i, case["ops"][i], so[:2], ao[:2])))
            return


def directed_pairs():
    """Enumerated pair programs: a class with one or two invariants of every check_on combination and one public method
    (own precondition and postcondition), rendered sync and async by the caller; all truth assignments."""
    import itertools

    combos = [(a,) for a in ("CALL", "SETATTR", "ALL")] + list(itertools.product(("CALL", "SETATTR", "ALL"), repeat=2))
    for ons in combos:
        for level in ("same-class", "sub-class"):
            ids = G.Ids()
            invs = [{"cid": ids.cid(), "on": on, "lam": False, "selfarg": True, "err": {"form": "default"}} for on in ons]
            params, defaults = G.params_of("method")
            m = {"name": "m", "kind": "method", "async": True, "params": params, "defaults": defaults, "body": {"ret": "obj"},
                 "decos": [{"t": "ensure", "cid": ids.cid(), "args": [], "lam": False, "err": {"form": "default"}},
                           {"t": "require", "cid": ids.cid(), "args": [], "lam": False, "err": {"form": "default"}}]}
            if level == "same-class":
                classes = [{"name": "K0", "bases": [], "root": "DBC", "shape": "plain", "invs": invs, "members": [m]}]
            else:
                classes = [{"name": "K0", "bases": [], "root": "DBC", "shape": "plain", "invs": invs[:1], "members": [m]},
                           {"name": "K1", "bases": [0], "root": "DBC", "shape": "plain", "invs": invs[1:], "members": []}]
            prog = {"funcs": [], "classes": classes}
            last = len(classes) - 1
            ops = [{"op": "new", "cls": last, "k": 0, "args": {}}, {"op": "call", "k": 0, "m": "m", "args": {"x": "a:x"}},
                   {"op": "setattr", "k": 0}, {"op": "call", "k": 0, "m": "m", "args": {"x": "a:x"}}]
            cids = D.all_cids(prog)
            yield {"program": prog, "ops": ops, "codes": {c: ("T", "F") for c in cids}, "masks": list(range(1 << len(cids))),
                   "target_kind": "method", "family": "pair", "directed_pair": [list(ons), level]}


def colour_triples(ctx, only=None):
    """Family (F): one program (require, snapshot, ensure; sync or coroutine-function conditions) put on a `def`, on an
    `async def`, and on an `async def` adapter that a foreign decorator built with functools.wraps AROUND a plain `def`
    (asyncify / run-in-executor helpers). What is decorated is a coroutine function in the last two cases: it gets the
    async semantics - same evaluations and outcome as the sync rendering, coroutine conditions awaited."""
    import functools
    import itertools

    import icontract
    from vf.progmodel.run import drive

    for async_conds, falsy in itertools.product((False, True), (None, "pre", "post")):
        views = {}
        for rendering in ("def", "async def", "async adapter around def"):
            if only and only != [async_conds, falsy]:
                continue
            if async_conds and rendering == "def":
                continue  # coroutine conditions on a sync callable are rejected (family C)
            log = []

            def mk(tag, is_post):
                if async_conds:
                    async def cond(x):
                        log.append(tag)
                        return falsy != tag
                else:
                    def cond(x):
                        log.append(tag)
                        return falsy != tag
                return cond

            def body(x):
                log.append("body")
                return x

            if rendering == "def":
                target = body
            elif rendering == "async def":
                async def target(x):
                    return body(x)
            else:
                def adapter(fn):
                    @functools.wraps(fn)
                    async def w(*a, **k):
                        return fn(*a, **k)
                    return w
                target = adapter(body)
            f = icontract.ensure(mk("post", True))(target)
            f = icontract.snapshot(lambda x: log.append("cap") or x, name="x0")(f)
            f = icontract.require(mk("pre", False))(f)
            import inspect

            try:
                r = f(3)
                if rendering != "def":
                    if not inspect.iscoroutine(r):
                        raise TypeError("the contracted coroutine function returned %r instead of a coroutine" % (r,))
                    r = drive(r)
                out = ("ret", r)
            except icontract.ViolationError:
                out = ("violation",)
            except BaseException as e:  # noqa
                out = ("exc", type(e).__name__, str(e)[:100])
            views[rendering] = (out, list(log), inspect.iscoroutinefunction(f))
        if not views:
            continue
        want_log = {"pre": ["pre"], "post": ["pre", "cap", "body", "post"], None: ["pre", "cap", "body", "post"]}[falsy]
        want_out = ("ret", 3) if falsy is None else ("violation",)
        label = "%s conditions, %s" % ("coroutine-function" if async_conds else "sync", "all hold" if falsy is None else falsy + " violated")
        for rendering, (out, lg, is_coro) in views.items():
            ctx.case(["colour-triple", async_conds, falsy, rendering], rendering.startswith("async adapter"),
                     sample={"family": "colour-triple", "rendering": rendering, "conditions": label, "outcome": list(out)})
            ctx.count("colour-triples")
            if out != want_out or lg != want_log or is_coro != (rendering != "def"):
                ctx.fail("colour-triple|%s|%s" % (rendering.replace(" ", "-"), "coro-conds" if async_conds else "sync-conds"),
                         {"family": "colour-triple", "directed": [async_conds, falsy]},
                         "%s on %s: expected %r evaluating %r (coroutine function: %s), got %r evaluating %r (coroutine "
                         "function: %s)" % (label, rendering, want_out, want_log, rendering != "def", out, lg, is_coro))
                break


def coroutine_invariants(ctx, only=None):
    """Invariants are evaluated synchronously, around sync and async methods alike: a condition that hands out a coroutine
    (a lambda calling an `async def` helper) is not judged by the coroutine object's truthiness - as for pre- and
    postconditions on sync callables it is rejected with ValueError when it is evaluated."""
    import warnings

    import icontract
    from vf.progmodel.run import drive

    async def negative(self):
        return False

    for trigger in ("construction", "sync method", "async method", "property"):
        if only and only != trigger:
            continue

        class K:
            def __init__(self):
                self.x = 1

            def m(self):
                return 1

            async def am(self):
                return 1

            @property
            def p(self):
                return 1

        with warnings.catch_warnings():
            warnings.simplefilter("ignore", RuntimeWarning)
            try:
                KK = icontract.invariant(lambda self: negative(self))(K)
                if trigger == "construction":
                    KK()
                else:
                    k = object.__new__(KK)
                    k.__dict__["x"] = 1
                    if trigger == "sync method":
                        k.m()
                    elif trigger == "async method":
                        drive(k.am())
                    else:
                        k.p
                got = "accepted (the coroutine object counted as a truthy verdict)"
            except ValueError as e:
                got = "ValueError" if "coroutine" in str(e).lower() else "ValueError without a hint: %s" % e
            except icontract.ViolationError:
                got = "ViolationError"
            except BaseException as e:  # noqa
                got = "%s: %s" % (type(e).__name__, str(e)[:100])
        ctx.case(["coroutine-invariant", trigger], True, sample={"family": "coroutine-invariant", "trigger": trigger, "outcome": got})
        ctx.count("coroutine-invariants")
        if got != "ValueError":
            ctx.fail("coroutine-invariant|%s" % trigger.split()[0], {"family": "coroutine-invariant", "directed": trigger},
                     "an invariant whose condition returns a coroutine, checked at %s: expected ValueError naming the coroutine, "
                     "got: %s" % (trigger, got))


def awaitable_results(ctx, only=None):
    """The body's RESULT is handed on as it is, also when it is itself awaitable (a launcher returning a future / task /
    coroutine / an object with __await__): sync and async renderings give the caller the very object the body returned,
    and the postconditions judge that object - nothing awaits it on the caller's behalf."""
    import icontract
    from vf.progmodel.run import drive

    class Later:
        def __init__(self):
            self.awaited = 0

        def __await__(self):
            self.awaited += 1
            return "awaited value"
            yield

    async def helper():
        return "from coroutine"

    for kind in ("object with __await__", "coroutine object"):
        for deco in ("require", "ensure"):
            if only and only != [kind, deco]:
                continue
            views = {}
            for is_async in (False, True):
                made = []

                def make():
                    obj = Later() if kind.startswith("object") else helper()
                    made.append(obj)
                    return obj

                if is_async:
                    async def f(x):
                        return make()
                else:
                    def f(x):
                        return make()
                seen = []
                if deco == "require":
                    g = icontract.require(lambda x: x > 0)(f)
                else:
                    g = icontract.ensure(lambda result: seen.append(result) or True)(f)
                try:
                    r = g(1)
                    if is_async:
                        r = drive(r)
                    same = r is made[0]
                    judged = (not seen) or seen[0] is made[0]
                    awaited = getattr(made[0], "awaited", 0)
                    out = ("ret", "the body's object" if same else repr(r)[:60], "judged the body's object" if judged else "judged %r" % (seen[0],),
                           "awaited %d times" % awaited)
                except BaseException as e:  # noqa
                    out = ("exc", type(e).__name__, str(e)[:100])
                finally:
                    for o in made:
                        if hasattr(o, "close"):
                            o.close()
                views["async def" if is_async else "def"] = out
            want = ("ret", "the body's object", "judged the body's object", "awaited 0 times")
            label = "body returning a %s under %s" % (kind, deco)
            ctx.case(["awaitable-result", kind, deco], True, sample={"family": "awaitable-result", "directed": label, "views": {k: list(v) for k, v in views.items()}})
            ctx.count("awaitable-results")
            for rendering, out in views.items():
                if out != want:
                    ctx.fail("awaitable-result|%s|%s" % (rendering.replace(" ", "-"), deco), {"family": "awaitable-result", "directed": [kind, deco]},
                             "%s, %s: expected %r, got %r" % (label, rendering, want, out))
                    break


def signature_pairs(ctx, tier):
    """Family (E): the same signature and call shape (positional-only / keyword-only / variadic parameters, defaults,
    surplus keywords incl. names equal to positional-only parameters) as `def` and as `async def`: the precondition,
    capture, postcondition and error factory receive identical values in both renderings (rig of C05)."""
    from vf import sigmodel
    from vf.props import c05

    n = 0
    for si, sig in enumerate(sigmodel.enumerate_sigs(max_po=1, max_pk=2, max_ko=1)):
        if tier == "quick" and si % 3:
            continue
        names = sigmodel.sig_params(sig)
        full = names + ["_ARGS", "_KWARGS"]
        req = {"pre": full, "cap": full, "post": full + ["result", "OLD"], "errpre": full, "errpost": full + ["result", "OLD"]}
        for shape in sigmodel.enumerate_shapes(sig, max_surplus=1):
            for mode in ("A", "C"):
                views = {}
                for flavour in ("func", "async"):
                    rig = c05.get_rig(sig, req, None, flavour)
                    args, kwargs = sigmodel.make_call(sig, shape)
                    ident = {id(v): "pos%d" % i for i, v in enumerate(args)}
                    ident.update({id(v): "kw:" + k for k, v in kwargs.items()})
                    for k, v in rig.defaults.items():
                        ident[id(v)] = "default:" + k
                    rig.log, rig.inner_log, rig.mode, rig.err_obj, rig.reenter, rig.self_by_keyword = [], [], mode, None, None, False
                    try:
                        rig.call(rig.func, args, kwargs)
                        out = "returned"
                    except core.HarnessError:
                        raise
                    except BaseException as e:  # noqa
                        out = "factory-error" if e is rig.err_obj else type(e).__name__

                    def lab(v):
                        if isinstance(v, tuple):
                            return tuple(lab(x) for x in v)
                        if isinstance(v, dict):
                            return tuple((k, lab(x)) for k, x in v.items())
                        return ident.get(id(v), type(v).__name__)
                    views[flavour] = (out, [(role, sorted((k, lab(v)) for k, v in loc.items() if k not in ("OLD", "result")))
                                            for role, loc in rig.log])
                n += 1
                case = {"family": "signature-pair", "sig": sig, "shape": shape, "mode": mode}
                ctx.case(["signature-pair", sig, shape, mode], bool(sig["po"] or sig["ko"] or sig["va"] or sig["vk"]),
                         sample=lambda: {"family": "signature-pair", "def": sigmodel.render_params(sig, lambda n_: "<dflt>"),
                                         "shape": shape, "mode": mode})
                if views["func"] != views["async"]:
                    feats = sigmodel.shape_features(sig, shape)
                    ctx.fail("signature-pair|%s" % ",".join(sorted(f for f in feats if "collides" in f or "surplus" in f) or ["plain"]),
                             case, "def f(%s) called with %d positionals and keywords %s (mode %s):\n sync:  %r\n async: %r" % (
                                 sigmodel.render_params(sig, lambda n_: "<dflt>"), shape["npos"], sorted(shape["kw"] + shape["xkw"]),
                                 mode, views["func"], views["async"]))
    ctx.count("signature_pairs", n)


def run(ctx, tier, seed, shard, nshards):
    global _active
    warnings.simplefilter("ignore", RuntimeWarning)
    _active = set(getattr(ctx, "active_known", set()))
    if "D16" in _active:
        ctx.count("excluded_flavours_by_D16")
    n = N_QUICK if tier == "quick" else N_THOROUGH
    la = 6 if tier == "quick" else 8
    D.explore(ctx, seed, n // 3, st_pair_case(), judge_pair, limit_all=la, n_sample=16, nontrivial=nontrivial)
    D.explore(ctx, seed + 1, n // 3, st_flavour_case(True), judge_flavours, limit_all=la, n_sample=16,
              nontrivial=nontrivial)
    D.explore(ctx, seed + 2, n // 3, st_flavour_case(False), judge_flavours, limit_all=la, n_sample=16,
              nontrivial=nontrivial)
    run_recursion_pairs(ctx, tier, seed + 3, n // 3)
    if shard == 0:
        for case in directed_pairs():
            D.run_one(ctx, case, judge_pair, nontrivial=nontrivial)
        ctx.count("directed_pair_programs", 24)
        signature_pairs(ctx, tier)
        colour_triples(ctx)
        coroutine_invariants(ctx)
        awaitable_results(ctx)


def replay(ctx, case):
    warnings.simplefilter("ignore", RuntimeWarning)
    fam = case.get("family", "pair")
    if fam == "awaitable-result":
        before = ctx.evaluations
        awaitable_results(ctx, only=case["directed"])
        ctx.evaluations = before + 1
        return
    if fam == "coroutine-invariant":
        before = ctx.evaluations
        coroutine_invariants(ctx, only=case["directed"])
        ctx.evaluations = before + 1
        return
    if fam == "colour-triple":
        before = ctx.evaluations
        colour_triples(ctx, only=case["directed"])
        ctx.evaluations = before + 1
        return
    if fam == "signature-pair":
        return signature_pairs(ctx, "thorough")
    if fam == "recursion-pair":
        import sys

        sys.setrecursionlimit(60000)
        check_recursion_pair(ctx, case)
        ctx.evaluations += 1
        return
    D.replay_case(ctx, case, judge_pair if fam == "pair" else judge_flavours)
