"""C05 - contracts observe the same argument values the body receives (DESIGN 4/C05).

Oracle: inspect.Signature.bind on the *bare* function + what the body logged (identity).
"""
import inspect
import itertools

from vf import core, sigmodel
from vf.sigmodel import Obj

ID = "C05"
LEVEL = "exploration"
SHARDS = {"quick": 1, "thorough": 16}
RULE = (
    "case = (signature, call shape, requested-name variant, mode in {all-hold, pre-violated, post-violated}, flavour in "
    "{def, async def, method called on an instance (self requestable, _ARGS starts with the instance), method of a DBC "
    "sub-class that overrides - without contracts of its own - a base method carrying the contracts}, re-entry in "
    "{no, the body calls the same callable again with other argument objects before returning}); "
    "signatures: 0..2 positional-only x 0..3 positional-or-keyword x *args? x 0..2 keyword-only x **kwargs? x every "
    "legal default placement; shapes: every bindable count of positionals (surplus 0..2 with *args), every "
    "keyword/omitted choice, surplus keywords z1,z2 and names equal to positional-only parameters with **kwargs. "
    "thorough enumerates this space completely (sharded) and adds Hypothesis-drawn larger signatures; quick samples "
    "it with Hypothesis. non-trivial = the shape uses a default, a keyword-only or positional-only parameter, or "
    "surplus arguments; distinct = hash of the whole case. Plus two-group cases: inherited and own precondition group of "
    "2 conditions each, every condition in {holds, violated, asks for a name the call does not provide} (3^4 - 2^4 "
    "assignments x sync/async): the walk over the groups in C16's order ends in a TypeError naming the name as soon as "
    "it reaches such a condition."
)
ASSUMPTIONS = [
    "variadic parameter names (args/kwargs) are never requested by a contract (excluded by the statement)",
    "reserved names result/OLD/_ARGS/_KWARGS are not used as parameter names (C19's business)",
    "oracle = inspect.Signature.bind + apply_defaults on the undecorated function, cross-checked against the "
    "locals() the body logged (disagreement = harness error)",
]

_cache = {}


class FactoryError(Exception):
    pass


METHODISH = ("method", "inherited")


class Rig:
    """One decorated function + callbacks for (sig, req)."""

    def __init__(self, sig, req, dreq=None, flavour="func", cb_kwonly=False):
        import icontract

        self.flavour = flavour
        self.sig = sig
        self.req = req
        self.dreq = dreq or {}
        self.cbdef = Obj("CALLBACK-DEFAULT")
        self.log = []
        self.inner_log = []
        self.depth = 0
        self.reenter = None
        self.mode = "A"
        self.result = Obj("RESULT")
        self.cap_token = Obj("CAP")
        self.err_obj = None
        g = {"BODY": self._body, "BODY2": self._body, "CB": self._cb, "CBDEF": self.cbdef}
        self.defaults = {}
        for i, n in enumerate(sig["dflt"]):
            # every other default is None (the most common default, and a value implementations like to test for)
            self.defaults[n] = None if i % 2 else Obj("dflt_" + n)
            g["D_" + n] = self.defaults[n]
        params = sigmodel.render_params(sig)
        if flavour in METHODISH:
            params = "self, " + params if params else "self"
        src = ["%sdef f(%s):\n    return BODY(locals())\n" % ("async " if flavour == "async" else "", params)]
        for role in ("pre", "cap", "post", "errpre", "errpost"):
            dn = set(self.dreq.get(role, []))
            names = [n for n in req[role] if n not in dn] + ["%s=CBDEF" % n for n in req[role] if n in dn]
            if cb_kwonly and names:
                # the callback asks for (all but its first) values through KEYWORD-ONLY parameters
                names = names[:1] + ["*"] + names[1:] if len(names) > 1 else ["*"] + names
            src.append("def %s(%s):\n    return CB(%r, locals())\n" % (role, ", ".join(names), role))
        exec(compile("\n".join(src), "<c05rig>", "exec"), g)
        self.bare = g["f"]
        self.bare_sig = inspect.signature(self.bare)
        f = icontract.ensure(g["post"], error=g["errpost"])(self.bare)
        f = icontract.snapshot(g["cap"], name="snap")(f)
        f = icontract.require(g["pre"], error=g["errpre"])(f)
        self.func = f
        self.inst = None
        if flavour == "method":
            self.inst = type("K", (), {"f": f})()
        if flavour == "inherited":
            # the contracts sit on a DBC base class; the sub-class overrides the method without contracts of its own: the
            # override's body is what runs, under the inherited contracts
            base = type(icontract.DBC)("P", (icontract.DBC,), {"f": f})
            exec(compile(src[0].replace("def f(", "def f2(").replace("BODY(", "BODY2("), "<c05rig>", "exec"), g)
            g["f2"].__name__ = "f"
            self.bare = g["f2"]
            self.bare_sig = inspect.signature(self.bare)
            self.inst = type(icontract.DBC)("K", (base,), {"f": g["f2"]})()
            self.func = type(self.inst).f

    def prefix(self):
        """Positional arguments Python puts in front of the call's own (the instance of a method call)."""
        return (self.inst,) if self.flavour in METHODISH else ()

    self_by_keyword = False

    def call(self, fn, args, kwargs):
        """Call the bare or the decorated callable the way a user would and return its result."""
        if self.flavour in METHODISH and fn is self.func and self.self_by_keyword and not args:
            ret = type(self.inst).f(self=self.inst, **kwargs)  # the unbound function with `self` passed by keyword
        elif self.flavour in METHODISH and fn is self.func:
            ret = self.inst.f(*args, **kwargs)
        else:
            ret = fn(*(self.prefix() + tuple(args)), **kwargs)
        if self.flavour == "async":
            try:
                ret.send(None)
            except StopIteration as stop:
                return stop.value
            ret.close()
            raise core.HarnessError("the coroutine suspended although nothing awaits")
        return ret

    def _body(self, loc):
        if self.depth:
            self.inner_log.append(("body", dict(loc)))
            return Obj("INNER-RESULT")
        self.log.append(("body", dict(loc)))
        if self.reenter is not None:
            # the body calls the same decorated callable again with other argument objects (recursion)
            self.depth = 1
            try:
                self.call(self.func, *self.reenter)
            finally:
                self.depth = 0
        return self.result

    def _cb(self, role, loc):
        if self.depth:
            # callbacks of the nested call: all hold
            self.inner_log.append((role, dict(loc)))
            return self.cap_token if role == "cap" else True
        self.log.append((role, dict(loc)))
        if role == "pre":
            return self.mode != "B"
        if role == "post":
            return self.mode != "C"
        if role == "cap":
            return self.cap_token
        self.err_obj = FactoryError(role)
        return self.err_obj


class _Bound:
    def __init__(self, arguments):
        self.arguments = arguments


def get_rig(sig, req, dreq=None, flavour="func", cb_kwonly=False):
    key = core.h64([sig, req, dreq, flavour, cb_kwonly])
    rig = _cache.get(key)
    if rig is None:
        if len(_cache) > 4000:
            _cache.clear()
        rig = _cache[key] = Rig(sig, req, dreq, flavour, cb_kwonly)
    return rig


def req_variants(sig, flavour="func"):
    """Deterministic requested-name variants for the enumerating tier."""
    names = sigmodel.sig_params(sig)
    full = (["self"] if flavour in METHODISH else []) + names + ["_ARGS", "_KWARGS"]
    out = []
    out.append({"pre": full, "cap": full, "post": full + ["result", "OLD"], "errpre": full,
                "errpost": full + ["result", "OLD"]})
    # names that may or may not be supplied through **kwargs, and one nobody supplies
    ev = names[0::2] + (["z1"] if sig["vk"] else [])
    od = names[1::2] + ["_KWARGS"] + (["z2"] if sig["vk"] else [])
    out.append({"pre": ev, "cap": od, "post": ev + ["OLD"], "errpre": od, "errpost": od + ["result"]})
    out.append({"pre": od + ["_ARGS"], "cap": ev + ["_ARGS"], "post": od + ["result"], "errpre": ev + ["_KWARGS"],
                "errpost": ev + ["OLD", "_ARGS"]})
    return out


def dreq_variants(req):
    """Which requested names carry a default value in the callback's own signature (none / every second / all)."""
    return [None, {r: [n for n in v if n not in ("result", "OLD")][1::2] for r, v in req.items()},
            {r: [n for n in v if n not in ("result", "OLD")] for r, v in req.items()}]


MISSING_VARIANTS = ("pre", "cap", "post", "errpre", "errpost")


def expected_value(name, sig, bound, args, kwargs, rig):
    """What a callback must receive for ``name`` -> ('val', obj) | ('missing',)"""
    if name in sigmodel.sig_params(sig):
        return ("val", bound.arguments[name])
    if name == "self" and rig.flavour in METHODISH:
        return ("val", rig.inst)
    by_kw = rig.flavour in METHODISH and rig.self_by_keyword and not args
    if name == "_ARGS":
        return ("args", () if by_kw else rig.prefix() + tuple(args))
    if name == "_KWARGS":
        return ("kwargs", dict({"self": rig.inst}, **kwargs) if by_kw else kwargs)
    if name in (sigmodel.VA_NAME, sigmodel.VK_NAME):
        raise core.HarnessError("variadic name requested")
    if name in kwargs:
        return ("val", kwargs[name])
    return ("missing",)


def run_case(ctx, case):
    sig, shape, req, mode = case["sig"], case["shape"], case["req"], case["mode"]
    dreq = case.get("dreq") or {}
    rig = get_rig(sig, req, dreq, case.get("flavour", "func"), bool(case.get("cb_kwonly")))
    args, kwargs = sigmodel.make_call(sig, shape)
    if case.get("none_args"):
        # None passed EXPLICITLY (it is a value like any other, also where the parameter has another default)
        args = tuple(None if i % 2 == 0 else a for i, a in enumerate(args))
        kwargs = {k: (None if j % 2 == 0 else v) for j, (k, v) in enumerate(kwargs.items())}
    # what the body receives: call the bare function with the very same objects
    rig.log = []
    try:
        rig.call(rig.bare, args, kwargs)
    except TypeError as e:
        raise core.HarnessError("generated shape is not accepted by Python: %r %r: %s" % (sig, shape, e))
    bound = _Bound(rig.log[0][1])
    try:
        b2 = rig.bare_sig.bind(*(rig.prefix() + tuple(args)), **kwargs)
        b2.apply_defaults()
        for n in sigmodel.sig_params(sig):
            if b2.arguments[n] is not bound.arguments[n]:
                raise core.HarnessError("Signature.bind and the bare body disagree on %s" % n)
    except TypeError:
        # inspect.Signature.bind rejects f(a=...) for `def f(a=0, /, **kw)` although Python accepts the call
        ctx.count("signature_bind_rejected_but_python_accepts")
    feats = sigmodel.shape_features(sig, shape)

    # ---- reference: stages in order ---------------------------------------
    def stage_missing(role):
        return [n for n in req[role] if n not in ("result", "OLD") and
                expected_value(n, sig, bound, args, kwargs, rig) == ("missing",)]

    # a name the call does not supply but for which the callback declares its own default: the statement does not say
    # whether the default is used or the call fails (conditions use it, captures fail) -> not judged
    for role in req:
        if any(n in (dreq.get(role) or []) for n in stage_missing(role)):
            ctx.count("skipped:unsupplied-name-with-callback-default")
            # the call is made all the same (not judged): it is part of the HISTORY of this contract - later calls that
            # do supply the name must be served with the value of THEIR call
            rig.log, rig.inner_log, rig.mode, rig.err_obj = [], [], "A", None
            try:
                rig.call(rig.func, args, kwargs)
            except core.HarnessError:
                raise
            except BaseException:  # noqa
                pass
            rig.log = []
            return feats

    expect_roles = []  # roles whose callback must have been called, in order
    expect_exc = None  # None | ("TypeError", names) | ("factory", role)
    if stage_missing("pre"):
        expect_exc = ("TypeError", stage_missing("pre"))
    else:
        expect_roles.append("pre")
        if mode == "B":
            if stage_missing("errpre"):
                expect_exc = ("TypeError", stage_missing("errpre"))
            else:
                expect_roles.append("errpre")
                expect_exc = ("factory", "errpre")
        elif stage_missing("cap"):
            expect_exc = ("TypeError", stage_missing("cap"))
        else:
            expect_roles.append("cap")
            expect_roles.append("body")
            if stage_missing("post"):
                expect_exc = ("TypeError", stage_missing("post"))
            else:
                expect_roles.append("post")
                if mode == "C":
                    if stage_missing("errpost"):
                        expect_exc = ("TypeError", stage_missing("errpost"))
                    else:
                        expect_roles.append("errpost")
                        expect_exc = ("factory", "errpost")

    # ---- real run ---------------------------------------------------------------
    rig.log = []
    rig.inner_log = []
    rig.mode = mode
    rig.err_obj = None
    got_exc = None
    got_ret = None
    rig.reenter = sigmodel.make_call(sig, shape) if case.get("reenter") else None
    # (with positional-only parameters `self` is positional-only too)
    rig.self_by_keyword = bool(case.get("self_kw")) and not case.get("reenter") and not sig["po"]
    try:
        got_ret = rig.call(rig.func, args, kwargs)
    except core.HarnessError:
        raise
    except BaseException as e:  # noqa
        got_exc = e
    finally:
        rig.reenter = None
        rig.depth = 0
        by_kw_used = rig.self_by_keyword and rig.flavour in METHODISH and not args
        if by_kw_used:
            ctx.count("method called unbound with self passed by keyword")
    if case.get("reenter") and "body" in [r for r, _ in rig.log] and "body" not in [r for r, _ in rig.inner_log]:
        ctx.count("nested_call_did_not_reach_its_body")

    def fail(clause, detail, pname=None):
        sit = []
        if pname is not None:
            if pname in sig["ko"] and "surplus_pos" in feats:
                sit.append("kwonly_param_with_surplus_positionals")
            elif pname in sig["po"] and pname in shape["xkw"]:
                sit.append("posonly_param_also_in_kwargs")
            else:
                kind = ("posonly" if pname in sig["po"] else "pk" if pname in sig["pk"] else
                        "kwonly" if pname in sig["ko"] else pname if pname.startswith("_") else "extra")
                sit.append(kind)
        bucket = "%s|%s" % (clause, ",".join(sit))
        c = dict(case)
        c["mismatch_param"] = pname
        if case.get("reenter"):
            bucket += "|body-re-enters"
        how = case.get("flavour", "func") + (", the body calls the callable again" if case.get("reenter") else "")
        ctx.fail(bucket, c, "%s\nflavour %s\nsignature: def f(%s)\ncall: %d positionals, keywords %s\nrequested: %s\nmode %s" % (
            detail, how, sigmodel.render_params(sig, lambda n: "<dflt>"), shape["npos"], sorted(kwargs), req, mode))

    # sanity: body's locals agree with bind (harness self-check)
    for role, loc in rig.log:
        if role == "body":
            for n in sigmodel.sig_params(sig):
                if loc[n] is not bound.arguments[n]:
                    raise core.HarnessError("bind and body disagree on %s" % n)

    got_roles = [r for r, _ in rig.log]
    if got_roles != expect_roles:
        fail("callback-sequence", "callbacks called %s, expected %s (exception at caller: %r)" % (
            got_roles, expect_roles, got_exc))
        return feats
    # outcome
    if expect_exc is None:
        if got_exc is not None or got_ret is not rig.result:
            fail("outcome", "expected normal return of the body's object, got ret=%r exc=%r" % (got_ret, got_exc))
            return feats
    elif expect_exc[0] == "TypeError":
        if not isinstance(got_exc, TypeError) or not all(repr(n) in str(got_exc) for n in expect_exc[1]):
            fail("missing-name-typeerror", "expected TypeError naming %s, got %r" % (expect_exc[1], got_exc))
            return feats
    else:
        if got_exc is None or got_exc is not rig.err_obj:
            fail("outcome", "expected the factory's exception object, got ret=%r exc=%r" % (got_ret, got_exc))
            return feats
    # values received
    for role, loc in rig.log:
        if role == "body":
            continue
        if set(loc) != set(req[role]):
            fail("received-names", "%s received names %s, requested %s" % (role, sorted(loc), req[role]))
            continue
        for n, got in loc.items():
            if n == "result":
                if got is not rig.result:
                    fail("result-identity", "%s got result=%r" % (role, got), n)
                continue
            if n == "OLD":
                try:
                    ok = got.snap is rig.cap_token
                except Exception as e:  # noqa
                    ok = False
                if not ok:
                    fail("OLD-identity", "%s got OLD without the captured token" % role, n)
                continue
            kind = expected_value(n, sig, bound, args, kwargs, rig)
            if kind[0] == "missing":
                # only possible for a parameter of the callback that has its own default
                if got is not rig.cbdef:
                    fail("callback-default", "%s received %s=%r for a name the call does not supply" % (role, n, got), n)
                continue
            if kind[0] == "val":
                if got is not kind[1]:
                    fail("named-identity", "%s received %s=%r, the body receives %r" % (role, n, got, kind[1]), n)
            elif kind[0] == "args":
                if not (isinstance(got, tuple) and len(got) == len(kind[1]) and all(x is y for x, y in zip(got, kind[1]))):
                    fail("_ARGS", "%s received _ARGS=%r, call had %r" % (role, got, kind[1]), n)
            elif kind[0] == "kwargs":
                want = kind[1]
                if not (isinstance(got, dict) and list(got) == list(want) and all(got[k] is want[k] for k in want)):
                    fail("_KWARGS", "%s received _KWARGS=%r, call had %r" % (role, got, want), n)
    return feats


NONTRIV = {"default_used", "kwonly", "posonly", "surplus_pos", "surplus_kw"}


def do_case(ctx, case):
    excl = exclusion(ctx, case)
    if excl:
        ctx.excluded_by_known += 1
        return
    feats = run_case(ctx, case)
    for f in feats:
        ctx.count("shape:" + f)
    ctx.count("mode:" + case["mode"])
    ctx.count("flavour:" + case.get("flavour", "func"))
    if case.get("reenter"):
        ctx.count("body re-enters the callable with other arguments")
    ctx.case(case, bool(NONTRIV & set(feats)), sample=lambda: sample_of(case))


def sample_of(case):
    sig = case["sig"]
    return {"def": "def f(%s)" % sigmodel.render_params(sig, lambda n: "<dflt>"), "shape": case["shape"],
            "requested": case["req"], "mode": case["mode"], "flavour": case.get("flavour", "func")}


def exclusion(ctx, case):
    """Known findings are excluded by construction while they still reproduce."""
    active = getattr(ctx, "active_known", set())
    feats = sigmodel.shape_features(case["sig"], case["shape"])
    if "D1" in active and "surplus_pos_with_kwonly" in feats:
        return "D1"
    if "D2" in active and "xkw_collides_posonly" in feats:
        return "D2"
    return None


KNOWN = {
    "D1": lambda bucket, case: bucket.endswith("|kwonly_param_with_surplus_positionals"),
    "D2": lambda bucket, case: bucket.endswith("|posonly_param_also_in_kwargs"),
}


def group_missing_cases(ctx, only=None):
    """A condition asking for a name the call does not provide, in a hierarchy with TWO precondition groups (the
    inherited group and the overriding method's own group, which is tried after it - C16): whenever the walk over the
    groups reaches that condition the call fails with a TypeError naming the missing name - it is neither taken for a
    group that does not hold nor skipped. Enumerated: 2 conditions per group x state {holds, violated, asks for a missing
    name} for each of the four x sync/async x the name is missing for every call / supplied by some calls through
    **kwargs."""
    import itertools
    import icontract
    from vf.progmodel.run import drive

    STATES = ("holds", "violated", "missing")
    for is_async, via_kwargs in itertools.product((False, True), (False, True)):
        for states in itertools.product(STATES, repeat=4):
            if "missing" not in states:
                continue
            key = ["async" if is_async else "sync", "kwargs" if via_kwargs else "never", list(states)]
            if only is not None and only != key:
                continue
            log = []

            def mk(i, state):
                ns = {"log": log}
                extra = ", absent_%d" % i if state == "missing" else ""
                exec("def cond_%d(x%s):\n    log.append(%d)\n    return %r" % (i, extra, i, state != "violated"), ns)
                return ns["cond_%d" % i]

            conds = [mk(i, st_) for i, st_ in enumerate(states)]
            ns = {"icontract": icontract, "c": conds, "log": log}
            A = "async " if is_async else ""
            exec("\n".join([
                "class Base(icontract.DBC):",
                "    @icontract.require(c[1])",
                "    @icontract.require(c[0])",
                "    %sdef m(self, x, **kw):" % A,
                "        return x",
                "class Sub(Base):",
                "    @icontract.require(c[3])",
                "    @icontract.require(c[2])",
                "    %sdef m(self, x, **kw):" % A,
                "        log.append('body')",
                "        return x",
            ]), ns)
            # the order of C16: the inherited group first, each group from the decorator nearest the function outwards,
            # a group is left at its first falsy condition, the walk ends at the first group that holds
            want_log, want = [], None
            # "kwargs": the call supplies the first of the missing names through **kwargs (that condition then holds)
            supplied = {"absent_%d" % states.index("missing"): 0} if via_kwargs else {}
            for group in ((0, 1), (2, 3)):
                held = True
                for i in group:
                    want_log.append(i)
                    if states[i] == "missing" and want is None and not (via_kwargs and ("absent_%d" % i) in supplied):
                        want = "TypeError:absent_%d" % i
                        break
                    if states[i] == "violated":
                        held = False
                        break
                if want is not None or held:
                    break
            if want is None:
                want = "accepted" if held else "rejected"
            if want.startswith("TypeError"):
                want_log = want_log[:-1]
            elif want == "accepted":
                want_log.append("body")
            try:
                r = ns["Sub"]().m(1, **supplied)
                if is_async:
                    r = drive(r)
                got = "accepted"
            except icontract.ViolationError:
                got = "rejected"
            except TypeError as e:
                names = [n for n in ("absent_%d" % i for i in range(4)) if repr(n) in str(e) or n in str(e)]
                got = "TypeError:" + ",".join(names) if names else "TypeError naming nothing: %s" % e
            except BaseException as e:  # noqa
                got = "%s: %s" % (type(e).__name__, e)
            ctx.case(["group-missing"] + key, True, sample={"directed": "two precondition groups, conditions (inherited: 2, own: 2) are %r" % (states,),
                                                            "expected": want})
            ctx.count("directed:group-missing")
            if got != want or [e for e in log] != want_log:
                ctx.fail("group-missing|%s|%s" % (key[0], want.split(":")[0]), {"group_missing_case": key},
                         "conditions of the inherited group %r and of the own group %r (nearest the function first): expected %s "
                         "evaluating %r, got %s evaluating %r" % (states[:2], states[2:], want, want_log, got, log))


def replay(ctx, case):
    if case.get("group_missing_case"):
        before = ctx.evaluations
        group_missing_cases(ctx, only=case["group_missing_case"])
        ctx.evaluations = before + 1
        return
    c = {k: case[k] for k in ("sig", "shape", "req", "mode")}
    c["dreq"] = case.get("dreq")
    for k in ("flavour", "reenter", "self_kw", "none_args", "cb_kwonly"):
        if k in case:
            c[k] = case[k]
    run_case(ctx, c)
    ctx.evaluations += 1


def run(ctx, tier, seed, shard, nshards):
    from hypothesis import given, strategies as st

    if shard == 0:
        group_missing_cases(ctx)

    modes = ("A", "B", "C")

    if tier == "thorough":
        # complete enumeration of the bounded space, sharded by signature index
        n_sig = 0
        for i, sig in enumerate(sigmodel.enumerate_sigs()):
            if i % nshards != shard:
                continue
            n_sig += 1
            variants = req_variants(sig)
            for shape in sigmodel.enumerate_shapes(sig):
                for vi, req in enumerate(variants):
                    for dreq in (dreq_variants(req) if vi == 0 else dreq_variants(req)[:2]):
                        for mode in modes:
                            do_case(ctx, {"sig": sig, "shape": shape, "req": req, "dreq": dreq, "mode": mode})
                            if vi == 0 and dreq is None:
                                do_case(ctx, {"sig": sig, "shape": shape, "req": req, "dreq": dreq, "mode": mode, "none_args": True})
                            if vi == 0:
                                do_case(ctx, {"sig": sig, "shape": shape, "req": req, "dreq": dreq, "mode": mode, "cb_kwonly": True})
                # the same signature as `async def` and as a method called on an instance (conditions may ask for self)
                for flavour in ("async", "method", "inherited"):
                    req = req_variants(sig, flavour)[0]
                    for mode in modes:
                        do_case(ctx, {"sig": sig, "shape": shape, "req": req, "dreq": None, "mode": mode,
                                      "flavour": flavour})
                        if flavour in METHODISH and shape["npos"] == 0:
                            do_case(ctx, {"sig": sig, "shape": shape, "req": req, "dreq": None, "mode": mode,
                                          "flavour": flavour, "self_kw": True})
                # the body calls the callable again with other argument objects: the outer call's postcondition,
                # capture and error factory still get the outer call's values
                for flavour in ("func", "method", "inherited"):
                    for mode in ("A", "C"):
                        do_case(ctx, {"sig": sig, "shape": shape, "req": req_variants(sig, flavour)[0], "dreq": None,
                                      "mode": mode, "flavour": flavour, "reenter": True})
                # one nobody-supplies-it name in each callback in turn
                for role in MISSING_VARIANTS:
                    req = {r: list(v) for r, v in variants[1].items()}
                    req[role] = req[role] + ["nobody"]
                    for mode in modes:
                        do_case(ctx, {"sig": sig, "shape": shape, "req": req, "mode": mode})
        ctx.exhaustive = True
        ctx.extra["enumerated_signatures"] = n_sig
        n_examples = 3000
        bounds = dict(max_po=3, max_pk=4, max_ko=3)
    else:
        n_examples = 2500
        bounds = dict(max_po=2, max_pk=3, max_ko=2)
        # histories on ONE contract: a few signatures with **kwargs, every shape in turn through the same decorated
        # function, callbacks asking for names that some calls supply and others do not (with and without own defaults)
        n_hist = 0
        for sig in sigmodel.enumerate_sigs():
            if not sig["vk"] or not sigmodel.sig_params(sig):
                continue
            n_hist += 1
            if n_hist > 24:
                break
            variants = req_variants(sig)
            for flavour in ("func", "inherited"):
                req = req_variants(sig, flavour)[1]
                for dreq in dreq_variants(req)[1:]:
                    for shape in sigmodel.enumerate_shapes(sig):
                        do_case(ctx, {"sig": sig, "shape": shape, "req": req, "dreq": dreq, "mode": "A", "flavour": flavour})

    @st.composite
    def st_case(draw):
        sig = draw(sigmodel.st_sig(**bounds))
        shape = draw(sigmodel.st_shape(sig, max_surplus=3 if tier == "thorough" else 2))
        flavour = draw(st.sampled_from(["func", "func", "async", "method", "inherited"]))
        names = sigmodel.sig_params(sig) + ["_ARGS", "_KWARGS"] + (["z1", "z2"] if sig["vk"] else [])
        if flavour in METHODISH:
            names.append("self")
        req = {}
        for role in ("pre", "cap", "post", "errpre", "errpost"):
            pool = list(names)
            if role in ("post", "errpost"):
                pool += ["result", "OLD"]
            chosen = [n for n in pool if draw(st.booleans())]
            if draw(st.integers(0, 9)) == 0:
                chosen.append("nobody")
            req[role] = chosen
        dreq = None
        if draw(st.booleans()):
            dreq = {r: [n for n in v if n not in ("result", "OLD") and draw(st.booleans())] for r, v in req.items()}
        return {"sig": sig, "shape": shape, "req": req, "dreq": dreq, "mode": draw(st.sampled_from(modes)),
                "flavour": flavour, "reenter": draw(st.integers(0, 3)) == 0,
                "self_kw": flavour in METHODISH and draw(st.booleans()), "none_args": draw(st.integers(0, 3)) == 0,
                "cb_kwonly": draw(st.integers(0, 3)) == 0}

    @given(st_case())
    def test(case):
        do_case(ctx, case)

    core.run_hypothesis(test, seed, n_examples)
