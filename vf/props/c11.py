"""C11 - checking is re-armed after every outcome: no sticky suspension, no lost error. DESIGN 4/C11, 3.5."""
import asyncio

from hypothesis import given, strategies as st

from vf import core, vrt
from vf.progmodel import driver as D
from vf.progmodel import gen as G
from vf.progmodel import harness as H
from vf.progmodel import ref as REF
from vf.progmodel import run as RUN
from vf.props import _single as S

ID = "C11"
LEVEL = "fault_enumeration"
SHARDS = {"quick": 1, "thorough": 16}
N_QUICK, N_THOROUGH = 250, 3000
FAULT_KINDS = ["ProgError", "KeyboardInterrupt", "SystemExit", "ProgBaseError", "GeneratorExit", "CancelledError",
               "RecursionError",
               # exception types the library itself raises or might be tempted to interpret (missing arguments are
               # reported as TypeError, lookups fail with KeyError/AttributeError, invalid contracts with ValueError)
               "TypeError", "KeyError", "AttributeError", "ValueError"]
EXC_KINDS = {"ProgError", "RecursionError", "TypeError", "KeyError", "AttributeError", "ValueError"}  # Exception subclasses
RULE = ("for every generated program (function, or class with invariants and method/property/constructor, sync or "
        "async, gated coroutine conditions on async callables; one drawn truth assignment) the checked call is run "
        "once per (injection point x fault kind): injection points = EVERY event of the un-faulted run where the "
        "library hands control to user code - k-th condition (raise at the call, or raise from __bool__ of its "
        "result), capture, error factory, body, an argument's __repr__ during message building, and for async "
        "callables every gate (throw the fault / CancelledError into the suspended coroutine, or close() it); fault "
        "kinds = {custom Exception, KeyboardInterrupt, SystemExit, custom BaseException, GeneratorExit, "
        "CancelledError, RecursionError, TypeError, KeyError, AttributeError, ValueError}. After the faulted call a probe suite (the same call under the all-truthy "
        "and under the violating truth table) runs in the same thread. Oracle: (1) the caller sees the injected "
        "object itself, or the documented wrapper chaining it (ValueError for a failing truth test, RuntimeError for "
        "a failing message computation - Exception kinds only), or - __repr__ faults only - the violation itself; "
        "(2) probe traces/outcomes equal those of a fresh thread; (3) the suspension set is empty afterwards. Plus "
        "Hypothesis-drawn sequences of two faulted calls before the probes. non-trivial = the fault is a "
        "BaseException kind, or sits in a capture/factory/__repr__/__bool__/invariant/gate, or two faults precede the "
        "probe; distinct = hash(program, op, truth, plan). Plus an interleaved family: 2..5 checked async calls of "
        "DIFFERENT functions / on different objects of an invariant-carrying class overlap in ONE context (coroutines "
        "stepped by hand under a generated schedule; each may be closed or have CancelledError / an exception / "
        "KeyboardInterrupt thrown in at a suspension point), then every callable is probed with each of its contracts "
        "violated and with all holding; oracle = the stand-alone trace and verdict. non-trivial there = the calls did "
        "not end in reverse order of their start. Plus a context-history family: 1..6 checked calls (function with a "
        "precondition / method of an invariant-carrying object; ending normally, with a violation, with an Exception or "
        "KeyboardInterrupt from the body) made in the thread's own context and in contexts copied from it "
        "(copy_context().run, a copy of a copy), then both callables are probed in every context; non-trivial there = at "
        "least one call was made in a copied context.")
ASSUMPTIONS = ["faults are injected where user code runs, not between arbitrary bytecodes of the wrappers",
               "the content of the suspension set is read through icontract._checkers._IN_PROGRESS when it exists "
               "(secondary observation)"]
KNOWN = {}


def make_fault(kind):
    if kind == "CancelledError":
        return asyncio.CancelledError("injected")
    return vrt.EXC_POOL[kind]("injected " + kind)


class BoolBomb:
    def __init__(self, fire):
        self._fire = fire

    def __bool__(self):
        self._fire()
        return True


def arm(run, plan, fault):
    """Install the one-shot hook of ``plan`` = (mode, kind, ident, n) on run for op 0."""
    mode, kind, ident, n = plan[:4]
    state = {"count": 0, "done": False, "fired": False}
    run.fault_states = getattr(run, "fault_states", [])
    run.fault_states.append(state)

    def due():
        if state["done"] or getattr(run, "opno", 0) != plan_op(plan):
            return False
        state["count"] += 1
        if state["count"] - 1 == n:
            state["done"] = True
            return True
        return False

    def fire(*a):
        if due():
            state["fired"] = True
            raise fault

    if mode == "raise":
        run.hooks[(kind, ident)] = lambda r, kw: fire()
    elif mode == "await":
        run.hooks[("await-" + kind, ident)] = lambda r, kw: fire()
    elif mode == "bool":
        def wrap(r, val):
            if due():
                def go():
                    state["fired"] = True
                    raise fault
                return BoolBomb(go)
            return val
        run.hooks[("wrap", ident)] = wrap
    elif mode == "repr":
        def rep(r, kw):
            if not state["done"] and getattr(run, "opno", 0) == plan_op(plan):
                state["done"] = True
                state["fired"] = True
                raise fault
        run.hooks[("repr", "arg")] = rep
    elif mode in ("gate-throw", "gate-close"):
        tag = ("gate", kind, ident)

        def g(r):
            if due():
                state["fired"] = True
                r.gate_actions[tag] = ("throw", fault) if mode == "gate-throw" else ("close",)
                return vrt.Yield(tag)
            return vrt._NoYield()
        run.hooks[("gate", kind, ident)] = g
    else:
        raise core.HarnessError("unknown fault mode %r" % (mode,))


def plan_op(plan):
    return plan[4] if len(plan) > 4 else 0


def execute_with_faults(loaded, ops, truth, plans):
    """Run ops in a fresh thread; plans = [(mode, kind, ident, n, opindex, faultkind)]. Returns (log, outs, run, faults)."""
    faults = []

    def go():
        run = vrt.Run(truth=dict(truth), event_budget=5000)
        run.gate_actions = {}
        for pl in plans:
            f = make_fault(pl[5])
            run.tok("fault%d" % len(faults), lambda f=f: f)
            faults.append(f)
            arm(run, pl[:5], f)
        vrt.V.begin(run)
        try:
            ex = RUN.Executor(loaded, run)
            outs = [ex.do(op) for op in ops]
            run.instances = ex.inst
            try:
                import icontract._checkers as CK

                var = getattr(CK, "_IN_PROGRESS", None)
                run.in_progress_after = None if var is None else set(var.get() or ())
            except Exception:  # noqa
                run.in_progress_after = None
        finally:
            vrt.V.end()
        return run.log, outs, run

    log, outs, run = core.in_fresh_thread(go)
    return log, outs, run, faults


def chain_contains(exc, fault):
    seen = 0
    while exc is not None and seen < 10:
        if exc is fault:
            return True
        exc = exc.__cause__ or exc.__context__
        seen += 1
    return False


def injection_points(events, program, has_bomb, is_async_target):
    """All single-fault plans for the events of the un-faulted op (mode, kind, ident, n)."""
    pts = []
    counts = {}
    aw_c, aw_s = set(), set()  # conditions / captures that hand out a non-coroutine awaitable (on async callables)
    for f in list(program.get("funcs", [])) + [m for c in program.get("classes", []) for m in c.get("members", [])]:
        for d in f.get("decos", []):
            if d.get("flavor") == "awaitable" and f.get("async"):
                (aw_c if d["t"] in ("require", "ensure") else aw_s).add(d.get("cid", d.get("sid")))
    for e in events:
        k, ident = e[0], e[1]
        if k in ("pre", "post", "inv"):
            n = counts.get(("cond", ident), 0)
            counts[("cond", ident)] = n + 1
            pts.append(("raise", "cond", ident, n, k))
            pts.append(("bool", "cond", ident, n, k))
            if ident in aw_c and k != "inv":
                pts.append(("await", "cond", ident, n, k))  # the awaited operation itself fails
        elif k in ("cap", "err", "body"):
            n = counts.get((k, ident), 0)
            counts[(k, ident)] = n + 1
            pts.append(("raise", k, ident, n, k))
            if k == "cap" and ident in aw_s:
                pts.append(("await", "cap", ident, n, k))
    if has_bomb:
        pts.append(("repr", "repr", "arg", 0, "repr"))
    return pts


def gate_points(program, events):
    """Gates reached by the un-faulted op: gated conditions/captures that were evaluated, async bodies that ran."""
    pts = []
    gated_c = set()
    gated_s = set()
    async_bodies = set()
    fs = list(program.get("funcs", [])) + [m for c in program.get("classes", []) for m in c.get("members", [])]
    for f in fs:
        for d in f.get("decos", []):
            if d.get("flavor") == "gated":
                (gated_c if d["t"] in ("require", "ensure") else gated_s).add(d.get("cid", d.get("sid")))
    for e in events:
        if e[0] in ("pre", "post") and e[1] in gated_c:
            pts.append(("cond", e[1], e[0]))
        elif e[0] == "cap" and e[1] in gated_s:
            pts.append(("cap", e[1], "cap"))
        elif e[0] == "body":
            qual = e[1]
            for f in fs:
                if f.get("async") and (qual == f["name"] or qual.endswith("." + f["name"])):
                    pts.append(("body", qual, "body"))
    out = []
    seen = set()
    for kind, ident, role in pts:
        if (kind, ident) not in seen:
            seen.add((kind, ident))
            out.append(("gate-throw", kind, ident, 0, role))
            out.append(("gate-close", kind, ident, 0, role))
    return out


def proj(seg):
    return [(e[0], e[1]) for e in seg]


def out_proj(o):
    if o[0] == "ret":
        return ("ret", o[1].rsplit(".", 1)[0] if isinstance(o[1], str) else o[1])
    if o[0] == "exc":
        w = o[1]
        if w[0] == "tok":
            return ("exc", "tok", w[1].rsplit(".", 1)[0])
        return ("exc",) + tuple(w[:3] if w[0] != "typeerror" else w[:1])
    return (o[0],)


def check_program(ctx, case, tier):
    program, ops, truth = case["program"], case["ops"], case["truth"]
    try:
        model = REF.Model(program)
    except REF.RefInconsistency:
        return
    setup, op0 = ops[:-1], ops[-1]
    t_all = {c: ["T"] for c in D.all_cids(program)}
    probes = [dict(op0, truth=t_all), dict(op0, truth=truth)]
    with RUN.Loaded(program) as loaded:
        if any(v is not None for v in loaded.errors.values()):
            return
        # un-faulted run: op0 then probes; and the fresh baseline of the probes alone
        base_log, base_outs, base_run, _ = execute_with_faults(loaded, setup + [dict(op0, truth=truth)] + probes, truth, [])
        if any(o[0] == "skip" for o in base_outs):
            return
        i0 = len(setup)
        ev0 = H.segment(base_log, base_outs, i0)
        fresh_log, fresh_outs, _, _ = execute_with_faults(loaded, setup + probes, truth, [])
        fresh = [(proj(H.segment(fresh_log, fresh_outs, len(setup) + j)), out_proj(fresh_outs[len(setup) + j])) for j in (0, 1)]
        base_out0 = base_outs[i0]
        has_bomb = any(str(v).startswith("bomb:") for v in (op0.get("args") or {}).values())
        msg_built = base_out0[0] == "exc" and base_out0[1][0] in ("viol", "cls")
        plans = injection_points(ev0, program, has_bomb and msg_built, False) + gate_points(program, ev0)
        kinds = FAULT_KINDS if tier == "thorough" else FAULT_KINDS
        sig = D.struct_sig(case)
        for (mode, kind, ident, n, role) in plans:
            for fk in kinds:
                if mode == "gate-close" and fk != FAULT_KINDS[0]:
                    continue  # close() carries no fault object
                plan = (mode, kind, ident, n, i0, fk)
                one(ctx, case, loaded, setup, op0, truth, probes, [plan], fresh, base_out0, role, sig)
        # sequences: two faulted calls before the probes
        for pa, pb in case.get("pairs", []):
            if not plans:
                break
            a = plans[pa % len(plans)]
            b = plans[pb % len(plans)]
            fa = FAULT_KINDS[pa % len(FAULT_KINDS)]
            fb = FAULT_KINDS[pb % len(FAULT_KINDS)]
            if a[0] == "repr" or b[0] == "repr" or (a[1], a[2]) == (b[1], b[2]) or (
                    a[0].startswith("gate") and b[0].startswith("gate")):
                continue  # two plans on one hook key would overwrite each other
            plan_a = (a[0], a[1], a[2], a[3], i0, fa)
            plan_b = (b[0], b[1], b[2], b[3], i0 + 1, fb)
            one(ctx, case, loaded, setup, op0, truth, probes, [plan_a, plan_b], fresh, base_out0, "sequence", sig)


def one(ctx, case, loaded, setup, op0, truth, probes, plans, fresh, base_out0, role, sig):
    nf = len(plans)
    ops = setup + [dict(op0, truth=truth)] * nf + probes
    log, outs, run, faults = execute_with_faults(loaded, ops, truth, plans)
    i0 = len(setup)
    c = {"program": case["program"], "ops": case["ops"], "truth": truth, "plans": [list(p) for p in plans]}
    desc = "plan(s): %s" % ", ".join("%s@%s#%s[%d]/%s" % (p[0], p[1], p[2], p[3], p[5]) for p in plans)
    excs = dict(run.exceptions)
    for j, pl in enumerate(plans):
        mode, kind, ident, n, opi, fk = pl
        fault = faults[j]
        out = outs[i0 + j]
        exc = excs.get(i0 + j)
        if not_fired(run, j):
            if mode == "await" and len(plans) == 1:
                # the callable WAS called in the un-faulted run and handed out its awaitable: it has to be awaited
                ctx.fail("lost|await-never-awaited|%s|%s" % (role, sig), c, D.describe(
                    c, _R(loaded), "%s\nthe awaitable returned by %s #%s was never awaited: whatever it produces (a falsy "
                                   "value, an exception) is dropped; outcome %r" % (desc, kind, ident, out[:2])))
                return
            continue  # the plan's point was not reached in this op (earlier fault changed the path)
        tag = "%s|%s|%s|%s" % (mode, role, "exc-kind" if fk in EXC_KINDS else "base-kind", sig)
        if mode == "gate-close":
            if out[0] != "ret" or out[1] != "closed":
                ctx.fail("lost|" + tag, c, D.describe(c, _R(loaded), "%s\nclosing the coroutine at the gate gave %r" % (desc, out[:2])))
                return
            continue
        ok = exc is fault
        why = "is the injected object"
        if not ok and fk in EXC_KINDS and mode == "bool":
            ok = isinstance(exc, ValueError) and chain_contains(exc, fault)
        if not ok and fk in EXC_KINDS and mode in ("raise", "bool") and exc is not None and chain_contains(exc, fault) and \
                isinstance(exc, RuntimeError) and "recompute" in str(exc):
            ok = True  # documented wrapper for failures while computing the message
        if not ok and mode == "repr":
            ok = (fk in EXC_KINDS and out_proj(out) == out_proj(base_out0)) or (exc is not None and chain_contains(exc, fault))
        if not ok:
            ctx.fail("lost|" + tag, c, D.describe(c, _R(loaded), "%s\nthe caller must see the injected %s (or its documented "
                                                                 "wrapper); it saw outcome %r, exception %r" % (desc, fk, out[:2], exc)))
            return
    # probes
    base = i0 + nf
    for j in (0, 1):
        got = (proj(H.segment(log, outs, base + j)), out_proj(outs[base + j]))
        if got != fresh[j]:
            ctx.fail("probe|%s|%s|%s" % (plans[0][0], role, sig), c, D.describe(
                c, _R(loaded), "%s\nafter the faulted call(s) probe %d behaves differently from a fresh thread:\n fresh: %r\n "
                               "after: %r" % (desc, j, fresh[j], got)))
            return
    if run.in_progress_after:
        ctx.fail("suspension-state|%s|%s|%s" % (plans[0][0], role, sig), c, D.describe(
            c, _R(loaded), "%s\nthe suspension set is not empty after the calls returned: %r" % (desc, run.in_progress_after)))
        return
    nt = any(p[5] not in EXC_KINDS for p in plans) or any(p[0] != "raise" or p[1] in ("cap", "err") for p in plans) or \
        role == "inv" or nf >= 2
    ctx.count("mode:" + plans[0][0])
    ctx.count("role:" + role)
    ctx.count("faultkind:" + plans[0][5])
    ctx.case([case["program"], case["ops"], truth, [list(p) for p in plans]], nt, sample=lambda: {
        "plan": desc, "op": op0, "truth": truth, "kinds": sig})


def not_fired(run, j):
    return not run.fault_states[j]["fired"]


class _R:
    def __init__(self, loaded):
        self.text = loaded.text


DECO_KW = dict(n_pre=(0, 2), n_post=(0, 2), n_snap=(0, 1), n_wraps=(0, 1),
               err_forms=("default", "default", "class", "instance", "def", "lambda"))
HIER_KW = dict(n_classes=(1, 2), dag=False, with_invs=True, with_init=True, inv_err_forms=("default", "def", "instance"))


@st.composite
def st_case(draw):
    kw = dict(DECO_KW)
    is_async = draw(st.booleans())
    case = draw(st.one_of(D.st_function_case(kw, async_ok=False), D.st_class_case(kw, HIER_KW)))
    prog = case["program"]
    fs = list(prog.get("funcs", [])) + [m for c in prog.get("classes", []) for m in c.get("members", [])
                                         if m["kind"] in ("method", "static", "class")]
    if is_async:
        for f in fs:
            f["async"] = True
            if (f.get("body") or {}).get("raise") == "StopIteration":
                f["body"]["raise"] = "KeyError"
            for d in f["decos"]:
                if d["t"] in ("require", "ensure", "snapshot") and not d.get("made") and draw(st.integers(0, 2)) == 0:
                    # gated: a coroutine function suspended at a gate; awaitable / ret_coro: a sync callable handing out
                    # a non-coroutine awaitable / a coroutine - what they produce is judged only after it was awaited
                    d["flavor"] = draw(st.sampled_from(["gated", "gated", "awaitable", "ret_coro"]))
                    d["lam"] = False
                    if d["t"] != "snapshot" and d["err"]["form"] in ("default", "class"):
                        d["err"] = {"form": "instance"}
    cids = D.all_cids(prog)
    codes = case["codes"]
    mask = draw(st.integers(0, (1 << len(cids)) - 1)) if cids else 0
    if draw(st.booleans()):
        mask = (1 << len(cids)) - 1 if draw(st.booleans()) else mask | draw(st.integers(0, (1 << len(cids)) - 1) if cids else st.just(0))
    truth = D.truth_for(cids, {int(k): v for k, v in codes.items()}, mask)
    ops = case["ops"]
    # keep one target op (the last one) with its setup; give it a repr bomb as argument when it takes x
    if ops[-1].get("args") and "x" in ops[-1]["args"]:
        ops[-1]["args"]["x"] = "bomb:x"
    elif ops[-1].get("args") and "value" in ops[-1]["args"]:
        ops[-1]["args"]["value"] = "bomb:value"
    # setup ops run under the all-truthy table
    t_all = {c: ["T"] for c in cids}
    keep = []
    if ops[-1]["op"] != "callf" and ops[-1]["op"] != "new":
        k = ops[-1]["k"]
        for o in ops[:-1]:
            if o["op"] == "new" and o["k"] == k:
                keep = [dict(o, truth=t_all)]
    pairs = [(draw(st.integers(0, 200)), draw(st.integers(0, 200))) for _ in range(3)]
    return {"program": prog, "ops": keep + [ops[-1]], "truth": truth, "pairs": pairs}


def nested_family(ctx):
    """Nested faulted calls: a condition (or a constructor body) of a checked callable calls another checked function
    whose body raises, and afterwards re-enters the outer callable / uses the outer object. The suspension state after
    the inner call must be what it was before it; oracle = the reference run R of C10 with the same raising body."""
    from vf.props import c10

    def fn(name, decos, body):
        return {"name": name, "kind": "function", "async": False, "params": ["x", "y"], "defaults": {"y": "None"},
                "decos": decos, "body": body}

    for kind in ("Exception", "ProgError", "KeyError"):
        for is_async in (False, True):
            for role in ("require", "ensure"):
                f0 = fn("f0", [{"t": role, "cid": 1, "args": ["x"], "lam": False, "err": {"form": "default"}}], {"ret": "obj"})
                f1 = fn("f1", [{"t": "require", "cid": 2, "args": [], "lam": False, "err": {"form": "default"}}], {"raise": kind})
                f0["async"] = f1["async"] = is_async
                inv = {"cid": 3, "on": "CALL", "lam": False, "selfarg": True, "err": {"form": "default"}}
                m = {"name": "m", "kind": "method", "async": is_async, "params": ["x", "y"], "defaults": {"y": "None"},
                     "decos": [], "body": {"ret": "obj"}}
                init = {"name": "__init__", "kind": "init", "async": False, "params": ["x", "y"],
                        "defaults": {"x": "None", "y": "None"}, "decos": [], "body": {"ret": "None"}, "super": "absent"}
                k0 = {"name": "K0", "bases": [], "root": "DBC", "shape": "plain", "invs": [inv], "members": [m, init]}
                prog = {"funcs": [f0, f1], "classes": [k0]}
                call_f0 = {"op": "callf", "f": "f0", "args": {"x": "a:s"}}
                call_f1 = {"op": "callf", "f": "f1", "args": {"x": "a:s"}}
                call_m = {"op": "call", "k": 0, "m": "m", "args": {"x": "a:s"}}
                scenarios = {
                    "reenter-after-inner-fault": ({("cond", 1): [call_f0, call_f1, call_f0]}, [call_f0, call_f0]),
                    "method-after-inner-fault-in-invariant": ({("cond", 3): [call_f1, call_m]},
                                                              [{"op": "new", "cls": 0, "k": 0, "args": {}}, call_m, call_m]),
                    "method-body-calls-faulting-function": ({("body", "K0.m"): [call_f1, call_m]},
                                                            [{"op": "new", "cls": 0, "k": 0, "args": {}}, call_m, call_f0]),
                }
                # a class without __init__ whose __new__ hands out the one existing instance: constructing it again from a
                # method body is a checked call on the object whose method is running; afterwards the object must still
                # count as being in that method (the nested n() is not checked), and after m() it must be re-armed
                n = dict(m, name="n")
                snew = {"name": "__new__", "kind": "new", "async": False, "params": ["x", "y"],
                        "defaults": {"x": "None", "y": "None"}, "decos": [], "body": {"ret": "None"}, "singleton": True}
                k0s = {"name": "K0", "bases": [], "root": "DBC", "shape": "noinit", "invs": [inv], "members": [m, n, snew]}
                prog_s = {"funcs": [f0, f1], "classes": [k0s]}
                call_n = {"op": "call", "k": 0, "m": "n", "args": {"x": "a:s"}}
                new0 = {"op": "new", "cls": 0, "k": 0, "args": {}}
                scenarios["method-body-constructs-the-same-object-again"] = (
                    {("body", "K0.m"): [new0, call_n]}, [new0, call_m, call_n, call_m], prog_s)
                for sname, sc in scenarios.items():
                    scripts, ops = sc[0], sc[1]
                    prog = sc[2] if len(sc) > 2 else prog
                    if len(sc) > 2 and role == "ensure":
                        continue  # the function contracts play no part in these two
                    for code in ("T", "F"):
                        truth = {1: [code], 2: ["T"], 3: ["T"]}
                        case = {"program": prog, "ops": ops, "scripts": [[list(k), v] for k, v in scripts.items()], "fuel": 3,
                                "truth": truth, "nested": sname}
                        res = c10.run_case(ctx, case, truth)
                        if res is None:
                            continue
                        before = set(ctx.failures)
                        c10.judge_case(ctx, case, truth, res)
                        for b in list(ctx.failures):
                            if b not in before:
                                f = ctx.failures.pop(b)
                                nb = "nested|%s|%s|%s" % (sname, kind, b.split("|")[0])
                                f.bucket = nb
                                ctx.failures[nb] = f
                                ctx.failure_counts[nb] = ctx.failure_counts.pop(b, 1)
                        ctx.count("nested:" + sname)
                        ctx.case(["nested", sname, kind, is_async, role, code], True, sample={"nested": sname, "inner body raises": kind,
                                                                                            "async": is_async})


class _Susp:
    """Awaitable that hands control to the hand-written driver of ``interleaved``."""

    def __init__(self, tag):
        self.tag = tag

    def __await__(self):
        yield ("susp", self.tag)


def _interleaved_rig(n_funcs, n_objs, log, truth):
    """n_funcs contracted async functions and one class with an invariant and an async method, n_objs instances.
    Every condition and body suspends once; ``truth`` maps (name, role) -> bool, read at evaluation time."""
    import icontract

    callables = {}

    def make(name):
        async def pre(x):
            await _Susp((name, "pre"))
            log.append((name, "pre"))
            return truth.get((name, "pre"), True)

        async def post(result):
            await _Susp((name, "post"))
            log.append((name, "post"))
            return truth.get((name, "post"), True)

        @icontract.require(pre)
        @icontract.ensure(post)
        async def f(x):
            log.append((name, "body"))
            await _Susp((name, "body"))
            return x

        return f

    for i in range(n_funcs):
        callables["f%d" % i] = make("f%d" % i)

    def inv(self):
        log.append((self.name, "inv"))
        return truth.get((self.name, "inv"), True)

    def mpre(self):  # a def: the source of a violated lambda would be re-evaluated for the message
        log.append((self.name, "pre"))
        return truth.get((self.name, "pre"), True)

    @icontract.invariant(inv)
    class K:
        def __init__(self, name):
            self.name = name

        @icontract.require(mpre)
        async def m(self, x):
            log.append((self.name, "body"))
            await _Susp((self.name, "body"))
            return x

    for i in range(n_objs):
        callables["o%d" % i] = K("o%d" % i).m
    del log[:]
    return callables


def _alone_trace(name):
    if name.startswith("f"):
        return [(name, "pre"), (name, "body"), (name, "post")]
    return [(name, "inv"), (name, "pre"), (name, "body"), (name, "inv")]


def interleaved_case(ctx, case):
    """Checked async calls of DIFFERENT functions / on different objects that overlap in ONE context (coroutines driven by
    hand in this thread, as an event loop does for tasks given the same context) and end in any order, normally, by
    close() or by an exception thrown at a suspension point. Afterwards every callable must be checked again as in a
    fresh process: a violated precondition / invariant is reported, and all contracts are evaluated."""
    import icontract

    log, truth = [], {}
    names = case["names"]
    callables = _interleaved_rig(sum(1 for n in names if n.startswith("f")), sum(1 for n in names if n.startswith("o")),
                                 log, truth)
    live = {}
    ended = {}
    for name in names:
        live[name] = callables[name](name)
    started, first_step = set(), {}
    for step in case["schedule"]:
        if not live:
            break
        name = sorted(live)[step[0] % len(live)]
        coro = live[name]
        act = step[1] if name in started else "send"
        if name not in started:
            first_step[name] = len(first_step)
        started.add(name)
        try:
            if act == "send":
                y = coro.send(None)
            elif act == "close":
                coro.close()
                raise StopIteration("closed")
            else:
                y = coro.throw(make_fault(act))
            if not (isinstance(y, tuple) and y[0] == "susp"):
                raise RuntimeError("vf: unexpected suspension %r" % (y,))
        except StopIteration as e:
            ended[name] = ("closed",) if e.args == ("closed",) else ("ret", e.value)
            del live[name]
        except BaseException as e:  # noqa
            ended[name] = ("exc", type(e).__name__)
            del live[name]
    for name in sorted(live):  # whatever is still suspended is finished in name order
        try:
            while True:
                live[name].send(None)
        except StopIteration as e:
            ended[name] = ("ret", e.value)
        except BaseException as e:  # noqa
            ended[name] = ("exc", type(e).__name__)
    key = ["interleaved", names, case["schedule"]]
    start_order = [n for n in dict.fromkeys(sorted(started, key=lambda n: first_step[n]))]
    end_order = list(ended)
    overlapped_nonlifo = len(start_order) >= 2 and [n for n in end_order if n in started] != start_order[::-1]
    ctx.case(key, overlapped_nonlifo, sample={"interleaved": names, "schedule": case["schedule"], "ended": {k: list(v) for k, v in ended.items()}})
    ctx.count("interleaved:calls=%d" % len(names))
    # calls that ended normally were evaluated completely, in their own order
    for name in names:
        if ended[name][0] == "ret":
            mine = [e for e in log if e[0] == name]
            if mine != _alone_trace(name) or ended[name][1] != name:
                ctx.fail("interleaved|call-differs-from-alone|%s" % name[0], dict(case, interleaved=True),
                         "overlapping calls %r, schedule %r: the call of %s evaluated %r and ended %r; alone it evaluates %r and "
                         "returns its argument" % (names, case["schedule"], name, mine, ended[name], _alone_trace(name)))
                return
    # probes, in the same thread and context
    def drive_plain(coro):
        try:
            while True:
                coro.send(None)
        except StopIteration as e:
            return e.value

    for name in names:
        for role in (("pre",) if name.startswith("f") else ("pre", "inv")) + (None,):
            del log[:]
            truth.clear()
            if role:
                truth[(name, role)] = False
            try:
                out = ("ret", drive_plain(callables[name](name)))
            except icontract.ViolationError:
                out = ("violation",)
            except BaseException as e:  # noqa
                out = ("exc", type(e).__name__)
            if role is None:
                want_out, want_log = ("ret", name), _alone_trace(name)
            else:
                want_out = ("violation",)
                want_log = _alone_trace(name)[:_alone_trace(name).index((name, role)) + 1]
            ctx.evaluations += 1
            if out != want_out or log != want_log:
                ctx.fail("interleaved|probe-not-checked-as-fresh|%s|%s" % (name[0], role or "all-hold"), dict(case, interleaved=True),
                         "after the overlapping calls %r (schedule %r, ended %r) the probe %s(...) with %s gave %r evaluating %r; "
                         "a fresh process gives %r evaluating %r" % (
                             names, case["schedule"], ended, name, "violated " + role if role else "all contracts holding", out,
                             log, want_out, want_log))
                return
    truth.clear()


@st.composite
def st_interleaved(draw):
    nf = draw(st.integers(0, 3))
    no = draw(st.integers(0 if nf >= 2 else 2 - nf, 2))
    names = ["f%d" % i for i in range(nf)] + ["o%d" % i for i in range(no)]
    acts = ["send"] * 8 + ["close", "CancelledError", "ProgError", "KeyboardInterrupt"]
    schedule = draw(st.lists(st.tuples(st.integers(0, 5), st.sampled_from(acts)), min_size=2, max_size=5 * len(names)))
    return {"names": names, "schedule": [list(x) for x in schedule]}


def context_history_case(ctx, case):
    """A history of checked calls made in the thread's own context and in contexts COPIED from it (contextvars.copy_context()
    .run, as asyncio tasks and to_thread do), each ending normally, with a violation or with an exception from the body.
    Afterwards the thread's own context - and every copy - checks each callable as a fresh process would."""
    import contextvars

    import icontract

    log, truth = [], {}
    raise_in_body = []

    def pre(x):
        log.append(("f", "pre"))
        return truth.get(("f", "pre"), True)

    @icontract.require(pre)
    def f(x):
        log.append(("f", "body"))
        if raise_in_body:
            raise make_fault(raise_in_body[0])
        return x

    def inv(self):
        log.append(("o", "inv"))
        return truth.get(("o", "inv"), True)

    @icontract.invariant(inv)
    class K:
        def __init__(self):
            # (also run again on the existing object: ``o.__init__()`` is a checked constructor call that may fail)
            if raise_in_body:
                raise make_fault(raise_in_body[0])

        def m(self, x):
            log.append(("o", "body"))
            if raise_in_body:
                raise make_fault(raise_in_body[0])
            return x

    o = K()
    del log[:]
    contexts = {"own": None}

    def in_context(name, fn):
        if name == "own":
            return fn()
        return contexts[name].run(fn)

    def one_call(target, how):
        truth.clear()
        del raise_in_body[:]
        if how == "violate":
            truth[("f", "pre") if target == "f" else ("o", "inv")] = False
            if target == "init":
                # (left violated, the object could not be probed; a failing constructor is played by its body instead)
                truth.clear()
                raise_in_body.append("ProgError")
        elif how != "ok":
            raise_in_body.append(how)
        try:
            if target == "init":
                o.__init__()
            else:
                (f if target == "f" else o.m)(1)
        except BaseException:  # noqa - the history only needs the call to have ended somehow
            pass
        finally:
            truth.clear()
            del raise_in_body[:]

    for step in case["steps"]:
        where, target, how = step
        if where.startswith("copy") and where not in contexts:
            # a copy is taken from the thread's own context at the moment it is first used (``copy2`` from ``copy1``)
            src = "copy1" if where == "copy2" and "copy1" in contexts else "own"
            contexts[where] = in_context(src, contextvars.copy_context)
        in_context(where, lambda: one_call(target, how))
    ctx.case(["context-history", case["steps"]], any(s[0] != "own" for s in case["steps"]),
             sample={"context-history": case["steps"]})
    ctx.count("context-history:steps=%d" % len(case["steps"]))
    for where in contexts:
        for target, role in (("f", "pre"), ("o", "inv")):
            for violated in (True, False):
                del log[:]
                truth.clear()
                if violated:
                    truth[(target, role)] = False

                def probe():
                    try:
                        return ("ret", (f if target == "f" else o.m)(1))
                    except icontract.ViolationError:
                        return ("violation",)
                    except BaseException as e:  # noqa
                        return ("exc", type(e).__name__)

                out = in_context(where, probe)
                alone = [("f", "pre"), ("f", "body")] if target == "f" else [("o", "inv"), ("o", "body"), ("o", "inv")]
                want_out, want_log = (("violation",), alone[:1]) if violated else (("ret", 1), alone)
                ctx.evaluations += 1
                if out != want_out or log != want_log:
                    ctx.fail("context-history|probe-not-checked-as-fresh|%s|%s" % ("own" if where == "own" else "copy", target),
                             dict(case, context_history=True),
                             "after the history %r the probe of %s in the context %r with %s gave %r evaluating %r; a fresh process "
                             "gives %r evaluating %r" % (case["steps"], target, where, "the contract violated" if violated else
                                                         "all contracts holding", out, log, want_out, want_log))
                    truth.clear()
                    return
    truth.clear()


@st.composite
def st_context_history(draw):
    hows = ["ok", "ok", "violate", "ProgError", "KeyboardInterrupt"]
    steps = draw(st.lists(st.tuples(st.sampled_from(["own", "own", "copy1", "copy2"]), st.sampled_from(["f", "o", "o", "init"]),
                                    st.sampled_from(hows)), min_size=1, max_size=6))
    return {"steps": [list(x) for x in steps]}


def interleaved(ctx, seed, n):
    # directed: f starts, g starts, f ends, g ends (non-LIFO), for every pair of kinds
    for names in (["f0", "f1"], ["f0", "o0"], ["o0", "o1"], ["f0", "f1", "o0"]):
        k = len(names)
        for order in ("fifo", "lifo"):
            sched = [[i, "send"] for i in range(k)]  # every call started and suspended
            sched += [[0, "send"]] * 12 if order == "fifo" else [[k - 1 - min(i // 4, k - 1), "send"] for i in range(12)]
            interleaved_case(ctx, {"names": names, "schedule": sched, "label": "non-lifo" if order == "fifo" else "lifo"})

    @given(st_interleaved())
    def test(case):
        interleaved_case(ctx, case)

    core.run_hypothesis(test, seed, n)

    for steps in ([["own", "f", "ok"], ["copy1", "f", "ok"]], [["own", "o", "ok"], ["copy1", "o", "ok"]],
                  [["own", "f", "ok"], ["copy1", "f", "violate"], ["copy2", "f", "ok"]],
                  [["own", "o", "ok"], ["copy1", "f", "KeyboardInterrupt"], ["own", "f", "ok"], ["copy2", "o", "ProgError"]],
                  [["own", "init", "ProgError"]], [["own", "init", "KeyboardInterrupt"], ["copy1", "init", "ProgError"]],
                  [["own", "init", "ok"], ["own", "o", "ProgError"], ["own", "init", "violate"]]):
        context_history_case(ctx, {"steps": steps})

    @given(st_context_history())
    def test2(case):
        context_history_case(ctx, case)

    core.run_hypothesis(test2, seed, n)


def stack_overflow_cases(ctx, only=None):
    """A REAL RecursionError (the interpreter's limit, not a raised object) in the middle of a deep chain of checked calls -
    a linked list of nodes with an invariant walked recursively, a chain of distinct contracted functions calling one
    another - at every alignment of the stack (0..5 plain frames below the chain, i.e. the limit is hit inside a condition,
    a wrapper, the library's own bookkeeping or a body). The error surfaces, and afterwards every node / function is checked
    exactly as in a fresh process: nothing stays suspended."""
    import sys
    import icontract

    evals = []

    def inv(self):
        evals.append(("inv", self.i))
        return True

    @icontract.invariant(inv)
    class Node:
        def __init__(self, i, nxt):
            self.i = i
            self.nxt = nxt

        def depth(self):
            return 0 if self.nxt is None else 1 + self.nxt.depth()

        def ping(self):
            return self.i

    def mkfun(i, table):
        def pre(x):
            evals.append(("pre", i))
            return True

        def post(result):
            evals.append(("post", i))
            return True

        @icontract.require(pre)
        @icontract.ensure(post)
        def f(x):
            if x and i + 1 < len(table):
                return table[i + 1](x)
            return i
        return f

    def pad(k, thunk):
        return thunk() if k == 0 else pad(k - 1, thunk)

    N = 160
    for kind in ("nodes", "functions"):
        for k in range(6):
            key = [kind, k]
            if only is not None and only != key:
                continue
            if kind == "nodes":
                nodes = []
                nxt = None
                for i in reversed(range(N)):
                    nxt = Node(i, nxt)
                    nodes.append(nxt)
                nodes.reverse()
                top = lambda: nodes[0].depth()  # noqa
            else:
                table = []
                for i in range(N):
                    table.append(mkfun(i, table))
                top = lambda: table[0](True)  # noqa
            old = sys.getrecursionlimit()
            here = len(__import__("inspect").stack(0))
            try:
                sys.setrecursionlimit(here + 150)  # the chain needs several frames per link: it cannot finish
                try:
                    pad(k, top)
                    outcome = "finished"
                except RecursionError:
                    outcome = "RecursionError"
                except BaseException as e:  # noqa
                    outcome = "%s: %s" % (type(e).__name__, str(e)[:80])
            finally:
                sys.setrecursionlimit(old)
            bad = []
            for i in range(N):
                del evals[:]
                try:
                    if kind == "nodes":
                        nodes[i].ping()
                        want = [("inv", i), ("inv", i)]
                    else:
                        table[i](False)
                        want = [("pre", i), ("post", i)]
                    if evals != want:
                        bad.append((i, list(evals)))
                except BaseException as e:  # noqa
                    bad.append((i, "%s: %s" % (type(e).__name__, str(e)[:60])))
            ctx.case(["stack-overflow"] + key, True, sample={"directed": "real RecursionError in a chain of %s, %d plain frames below" % (kind, k),
                                                            "outcome": outcome})
            ctx.count("directed:stack-overflow")
            if outcome != "RecursionError" or bad:
                ctx.fail("stack-overflow|%s" % kind, {"stack_overflow": key},
                         "chain of %d %s entered below %d plain frames with the recursion limit 150 frames away: outcome %s; "
                         "afterwards these links were not checked as in a fresh process (index, events): %r" % (N, kind, k, outcome, bad[:4]))


def awaitable_flavours(ctx, tier):
    """Enumerated: an async function with one precondition, one capture and one postcondition, each in turn delivered as a
    gated coroutine function / a sync callable returning a coroutine / returning a non-coroutine awaitable object, under
    every truth assignment of the two conditions - through the same fault enumeration as the generated programs (every
    injection point x fault kind, including a fault inside the awaited operation; an awaitable that is never awaited is
    reported)."""
    import itertools

    for role, flavor in itertools.product(("require", "snapshot", "ensure"), ("gated", "ret_coro", "awaitable")):
        decos = [{"t": "require", "cid": 1, "args": ["x"], "lam": False, "err": {"form": "instance"}},
                 {"t": "snapshot", "sid": 1, "name": "s1", "args": ["x"], "lam": False},
                 {"t": "ensure", "cid": 2, "args": ["x", "result", "OLD"], "lam": False, "err": {"form": "instance"}}]
        for d in decos:
            if d["t"] == role:
                d["flavor"] = flavor
        f0 = {"name": "f0", "kind": "function", "async": True, "params": ["x", "y"], "defaults": {"y": "None"}, "decos": decos,
              "body": {"ret": "obj"}}
        prog = {"funcs": [f0], "classes": []}
        for t1, t2 in itertools.product(("T", "F"), repeat=2):
            case = {"program": prog, "ops": [{"op": "callf", "f": "f0", "args": {"x": "bomb:x"}}],
                    "truth": {1: [t1], 2: [t2]}, "pairs": [(0, 1), (3, 5), (8, 13)]}
            check_program(ctx, case, tier)
            ctx.count("directed:awaitable-flavours")


def interpreter_modes(ctx, only=None):
    """The same in every interpreter mode: vf/scripts/c11_optmode.py (contracts forced with enabled=True) ends a checked call
    in every way - return, violated precondition / postcondition / invariant, an exception from a condition, KeyboardInterrupt
    from the body, a constructor that fails, a coroutine method closed at its suspension point - and then probes the same
    function / object twice (all contracts hold; a contract is falsy). Run in child interpreters: default, -O, -OO. The probes
    must be checked as in a fresh process: fixed event lists, whatever came before."""
    from vf import modes

    first = {"returns": ["ret", 1], "pre-violated": ["violation"], "post-violated": ["violation"], "inv-violated": ["violation"],
             "pre-raises": ["KeyError"], "post-raises": ["KeyError"], "inv-raises": ["KeyError"],
             "body-raises-BaseException": ["KeyboardInterrupt"], "ctor-inv-violated": ["violation"], "ctor-inv-raises": ["KeyError"],
             "async-closed": ["closed"]}
    probes = {"function": [["ret", 1], ["pre", "body:f", "post"], ["violation"], ["pre", "body:f", "post"]],
              "object": [["ret", 1], ["inv", "pre", "body:m", "post", "inv"], ["violation"], ["inv"]]}
    names = (["function/" + n for n in list(first)[:8] if not n.startswith("inv")] + ["object/" + n for n in first])
    for flags in modes.MODES:
        mode = modes.mode_name(flags)
        if only is not None and only != mode:
            continue
        got = modes.run_script("c11_optmode.py", flags)
        for label in names:
            kind, fault = label.split("/")
            want = [first[fault]] + probes[kind]
            ctx.case(["interpreter-mode", mode, label], bool(flags), sample={"directed": "interpreter mode %s: %s, then two probes" % (mode, label)})
            ctx.count("directed:interpreter-modes")
            if got.get(label) != want:
                ctx.fail("interpreter-mode|%s|%s" % (mode, kind), {"interpreter_mode": mode},
                         "python %s vf/scripts/c11_optmode.py, %s: expected [outcome, probe outcome, probe events, outcome of the probe with "
                         "a falsy contract, its events] = %r, got %r" % (" ".join(flags), label, want, got.get(label)))


def run(ctx, tier, seed, shard, nshards):
    import sys

    sys.setrecursionlimit(60000)
    n = N_QUICK if tier == "quick" else N_THOROUGH
    if shard == 0:
        nested_family(ctx)
        stack_overflow_cases(ctx)
        interpreter_modes(ctx)
        awaitable_flavours(ctx, tier)

    @given(st_case())
    def test(case):
        check_program(ctx, case, tier)

    core.run_hypothesis(test, seed, n)
    interleaved(ctx, seed, 150 if tier == "quick" else 1500)
    ctx.extra["exhaustive_scope"] = "all injection points x fault kinds of every generated program (single fault)"


def replay(ctx, case):
    if case.get("interpreter_mode"):
        before = ctx.evaluations
        interpreter_modes(ctx, only=case["interpreter_mode"])
        ctx.evaluations = before + 1
        return
    if case.get("stack_overflow"):
        before = ctx.evaluations
        stack_overflow_cases(ctx, only=case["stack_overflow"])
        ctx.evaluations = before + 1
        return
    import warnings

    if case.get("context_history"):
        before = ctx.evaluations
        context_history_case(ctx, case)
        ctx.evaluations = before + 1
        return
    if case.get("interleaved"):
        before = ctx.evaluations
        interleaved_case(ctx, case)
        ctx.evaluations = before + 1
        return
    if case.get("nested"):
        from vf.props import c10
        import sys

        sys.setrecursionlimit(60000)
        truth = {int(k): v for k, v in case["truth"].items()}
        res = c10.run_case(ctx, case, truth)
        if res is not None:
            c10.judge_case(ctx, case, truth, res)
        ctx.evaluations += 1
        return

    warnings.simplefilter("ignore", RuntimeWarning)
    case = dict(case)
    case["truth"] = {int(k): v for k, v in case["truth"].items()}
    plans = [tuple(p) for p in case.get("plans", [])]
    program, ops, truth = case["program"], case["ops"], case["truth"]
    setup, op0 = ops[:-1], ops[-1]
    t_all = {c: ["T"] for c in D.all_cids(program)}
    probes = [dict(op0, truth=t_all), dict(op0, truth=truth)]
    with RUN.Loaded(program) as loaded:
        fresh_log, fresh_outs, _, _ = execute_with_faults(loaded, setup + probes, truth, [])
        fresh = [(proj(H.segment(fresh_log, fresh_outs, len(setup) + j)), out_proj(fresh_outs[len(setup) + j])) for j in (0, 1)]
        base_log, base_outs, _, _ = execute_with_faults(loaded, setup + [dict(op0, truth=truth)], truth, [])
        one(ctx, case, loaded, setup, op0, truth, probes, plans, fresh, base_outs[len(setup)], "replay", D.struct_sig(case))
