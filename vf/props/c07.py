"""C07 - a violation always surfaces as the contract's error with the true condition text. DESIGN 4/C07."""
import ast

from hypothesis import given, strategies as st

from vf import core, exprlib
from vf.exprgen import grammar as GR
from vf.exprgen import oracle as OR
from vf.exprgen import render as RD
from vf.exprgen import msgparse as MP
from vf.exprgen import layout as LY
from vf.props import c06

ID = "C07"
LEVEL = "exploration"
SHARDS = {"quick": 1, "thorough": 16}
FUZZ = {"thorough": (16, 5000)}  # atheris campaigns x executions each (vf/fuzz.py)
N_QUICK, N_THOROUGH = 900, 8000
RULE = ("case = (condition: a guarded partial operation - `xs and xs[0] > k`, `o.child is None or o.child.n > k`, `n != "
        "0 and 10 // n > k`, `0 < n < 10 // n`, `s in d and d[s] > k`, `len(t) > 0 and t[0] > k`, `not xs or ...`, "
        "nested in calls - or an expression of the C06 grammar with probes p(i, .) around sub-expressions; inputs on "
        "both sides of the guard; layout of the decorator drawn from {one line, arguments on separate lines, keyword "
        "form with other keywords around, condition broken over lines at boolean operators, comments and blank lines "
        "inside, trailing commas} x 0..2 neighbouring decorators above and below (other contracts with their own "
        "lambdas, a foreign functools.wraps decorator, comments) x nesting {function, class in a function, module} x "
        "role {require, ensure, invariant} x error form {default, class, instance} x def/async def x history {fresh "
        "file, a file that held ANOTHER violated contract at the same place before and was re-written}). Oracle: (a) "
        "CPython evaluates the condition to a falsy value without raising => the caller gets exactly the configured "
        "error; (b) the location names the generated file, a line of the decorator and the enclosing scope, the "
        "description is present; (c) ast.dump of the reported text equals ast.dump of the generated expression; (d) "
        "probes evaluated while the message is built are a subset of those Python evaluated. non-trivial = the "
        "falsifying input makes a later operand undefined, or the layout spans >=3 lines, or >=2 neighbouring "
        "decorators; distinct = hash(text, role, layout, inputs).")
ASSUMPTIONS = ["a continuation line starting with '@name' and conditions written outside the decorator are documented "
               "limits and not generated"]
KNOWN = {}


def later_operand_undefined(ctext, b):
    """True if eagerly evaluating every operand of the condition would raise although Python's evaluation does not."""
    tree = ast.parse(ctext, mode="eval")
    for node in ast.walk(tree):
        subs = []
        if isinstance(node, ast.BoolOp):
            subs = node.values[1:]
        elif isinstance(node, ast.Compare) and len(node.comparators) > 1:
            subs = node.comparators[1:]
        for sub in subs:
            if any(isinstance(x, (ast.ListComp, ast.SetComp, ast.DictComp, ast.GeneratorExp)) for x in ast.walk(sub)):
                continue
            st_, _ = OR.evaluate(ast.unparse(sub), b, list(b))
            if st_ == "raises":
                return True
    return False


def check_case(ctx, case):
    import icontract

    prep = c06.prepare(case)
    if prep is None:
        ctx.count("skipped:condition_raises_under_cpython")
        return
    inputs, ctext, lam_params, b = prep
    role, is_async = case["role"], case["async"]
    lay = case["layout"]
    errform = case["error"]
    # "factory": a function naming call arguments (which the condition need not take) - for invariants: `self`
    err_src = {"default": None, "class": "ValueError", "instance": "ERR_INSTANCE",
               "factory": "ERR_FACTORY_INV" if role == "invariant" else "ERR_FACTORY"}[errform]
    prelude = LY.PRELUDE + ("ERR_INSTANCE = KeyError('the instance')\nMADE = []\n"
                            "def ERR_FACTORY(x, s, ys):\n    MADE.append(KeyError('made', x, s))\n    return MADE[-1]\n"
                            "def ERR_FACTORY_INV(self):\n    MADE.append(KeyError('made'))\n    return MADE[-1]\n")
    text, start, end, scope = RD.module_text(ctext, lam_params, role=role, is_async=is_async, error=err_src,
                                             layout=LY.make_layout(lay["kind"]), nest=lay["nest"], above=lay["above"],
                                             below=lay["below"], prelude=prelude)
    # oracle B: probes Python evaluates
    del exprlib.PROBES[:]
    OR.evaluate(ctext, b, list(b))
    p_set = set(exprlib.PROBES)
    del exprlib.PROBES[:]
    reuse_path = None
    if case.get("rewritten"):
        # history: the same file held another contract at the same place before, and that one was violated (whatever the
        # library remembers about a source location must not outlive the source)
        decoy_text = RD.module_text(*(("len(self.s) > 10 ** 6", ["self"]) if role == "invariant" else ("len(s) > 10 ** 6", ["s"])), role=role, is_async=is_async, error=err_src,
                                    layout=LY.make_layout(lay["kind"]), nest=lay["nest"], above=lay["above"],
                                    below=lay["below"], prelude=prelude)[0]
        decoy = RD.Module(decoy_text)
        try:
            RD.call(decoy, role, is_async, inputs)
            reuse_path = decoy.path
        finally:
            decoy.close()
        del exprlib.PROBES[:]
        ctx.count("rewritten-source")
    try:
        mod = RD.Module(text, path=reuse_path)
    except BaseException as e:  # noqa
        raise core.HarnessError("generated module does not import: %r\n%s" % (e, text))
    try:
        RD.shadow_globals(mod, case.get("shadow"))
        exc = RD.call(mod, role, is_async, inputs)
        m_set = set(exprlib.PROBES)
        err_instance = mod.mod.ERR_INSTANCE
        made = list(mod.mod.MADE)
        path = mod.path
    finally:
        mod.close()
    jcase = dict(case)
    jcase["final_text"] = ctext
    undefined_later = later_operand_undefined(ctext, b)
    tag = "%s/%s%s|%s|%s|%s" % (role, errform, "/async" if is_async else "", lay["kind"], lay["nest"],
                                "guard-false" if undefined_later else "all-defined")

    def fail(clause, detail):
        ctx.fail("%s|%s" % (clause, tag), jcase, "%s\ncondition: lambda %s: %s\ninputs: %r\n--- module ---\n%s" % (
            detail, ", ".join(lam_params), ctext, case["inputs"], text[text.index("ERR_INSTANCE ="):][:1800]))

    # Domain: the condition must evaluate falsy WITHOUT raising when Python runs the real lambda. The oracle evaluates the
    # condition text with its names as globals; in the real lambda they are parameters / closure cells, and CPython 3.12
    # has a scoping quirk there (a parameter that is also the target of an inlined nested comprehension becomes a cell
    # that a generator expression reads too early: NameError "cannot access free variable"). If the exception comes
    # straight out of the condition's own code - no frame of the message builder in between - the case is outside C07.
    if isinstance(exc, NameError) and "cannot access free variable" in str(exc):
        frames = []
        tb = exc.__traceback__
        while tb is not None:
            frames.append(tb.tb_frame.f_code.co_filename)
            tb = tb.tb_next
        if frames and frames[-1] == path and not any(f.endswith(("_represent.py", "_recompute.py")) for f in frames):
            ctx.count("skipped:condition_raises_in_the_real_lambda(CPython 3.12 comprehension scoping)")
            return
    # (a) the configured error
    if errform == "default":
        ok = type(exc) is icontract.ViolationError
    elif errform == "class":
        ok = type(exc) is ValueError and exc.__cause__ is None
    elif errform == "factory":
        ok = len(made) == 1 and exc is made[0]
    else:
        ok = exc is err_instance
    if not ok:
        fail("(a)wrong-error:%s" % type(exc).__name__, "Python evaluates the condition to a falsy value without raising, "
             "but the caller got %r%s" % (exc, (" caused by %r" % (exc.__cause__,)) if getattr(exc, "__cause__", None) else ""))
        return
    # (d) probes
    if not m_set <= p_set:
        fail("(d)skipped-operand-evaluated", "building the message evaluated probes %s which Python's evaluation skipped "
             "(Python evaluated %s)" % (sorted(m_set - p_set), sorted(p_set)))
        return
    if errform not in ("instance", "factory"):
        msg = str(exc)
        lines = msg.split("\n")
        m = MP.LOC_RE.match(lines[0])
        # (b) location + description
        if not m or m.group(1) != path or not (start <= int(m.group(2)) <= end) or m.group(3) != scope:
            fail("(b)location", "location line %r; expected file %s, a line in [%d, %d], scope %r" % (lines[0], path, start, end, scope))
            return
        rest = "\n".join(lines[1:])
        if lay["kind"] in LY.NO_DESCRIPTION:
            if rest.startswith("the-desc"):
                fail("(b)description", "a description is shown although the contract has none: %r" % rest[:60])
                return
        else:
            if not rest.startswith("the-desc: "):
                fail("(b)description", "description missing: %r" % rest[:60])
                return
            rest = rest[len("the-desc: "):]
        # (c) the reported condition text: longest prefix that parses to the generated expression
        want = OR.dump(ctext)
        found = False
        cands = [i for i, ch in enumerate(rest) if ch == ":"] + [len(rest)]
        for i in cands:
            piece = rest[:i]
            try:
                if OR.dump(piece) == want:
                    found = True
                    break
            except SyntaxError:
                continue
        if not found:
            fail("(c)condition-text", "no prefix of the message text parses to the generated expression:\n%s" % rest[:400])
            return
    span = end - start + 1
    neigh = len([x for x in lay["above"] + lay["below"] if x.strip().startswith("@")])
    nt = undefined_later or span >= 3 or neigh >= 2
    ctx.count("layout:" + lay["kind"])
    ctx.count("nest:" + lay["nest"])
    ctx.count("error:" + errform)
    ctx.count("role:" + role + ("/async" if is_async else ""))
    if case.get("shadow"):
        ctx.count("module globals named like the parameters")
    if undefined_later:
        ctx.count("guard-false(later operand undefined)")
    ctx.case([ctext, role, is_async, errform, lay, case["inputs"]], nt, sample=lambda: {
        "decorator": "\n".join(text.split("\n")[start - 1:end]), "role": role, "error": errform,
        "guard_false": undefined_later})


@st.composite
def st_case(draw, tier):
    if draw(st.booleans()):
        tmpl, params = draw(st.sampled_from(GR.GUARDED))
        text = GR.canon(tmpl.format(k=draw(st.integers(-2, 9))))
        feats = ["guarded"]
    else:
        cond = draw(GR.st_condition(depth=3, probes=True))
        text, params, feats = cond["text"], cond["params"], cond["features"]
    role = draw(st.sampled_from(["require", "require", "ensure", "invariant"]))
    inputs = draw(GR.st_inputs(long_values=False))
    # inputs on both sides of the guards
    if draw(st.booleans()):
        inputs["xs"] = []
    if draw(st.booleans()):
        inputs["n"] = 0
    if draw(st.booleans()):
        inputs["o"]["child"] = None
    if draw(st.booleans()):
        inputs["t"] = []
    if draw(st.booleans()):
        inputs["q"] = 0
    # module globals named like the parameters, bound to values on the OTHER side of every guard
    shadow = draw(GR.st_inputs(long_values=False)) if draw(st.integers(0, 3)) else None
    if shadow is not None:
        shadow["xs"] = [7, -3] if not inputs["xs"] else []
        shadow["n"] = 4 if not inputs["n"] else 0
        shadow["o"]["child"] = ({"n": 2, "items": [1], "child": None} if inputs["o"]["child"] is None else None)
        shadow["t"] = [5, 6] if not inputs["t"] else []
        shadow["q"] = 2 if not inputs["q"] else 0
        feats = list(feats) + ["shadowing-globals"]
    return {"text": text, "params": GR.free_params(text), "features": feats, "role": role, "shadow": shadow,
            "async": role != "invariant" and draw(st.integers(0, 3)) == 0, "inputs": inputs,
            "layout": draw(LY.st_layout(role)), "error": draw(st.sampled_from(["default", "default", "default", "class", "instance", "factory"])),
            "rewritten": draw(st.integers(0, 5)) == 0}


def run(ctx, tier, seed, shard, nshards):
    n = N_QUICK if tier == "quick" else N_THOROUGH

    @given(st_case(tier))
    def test(case):
        check_case(ctx, case)

    core.run_hypothesis(test, seed, n)
    if shard == 0:
        directed(ctx)
        scope_cases(ctx)
        condition_kinds(ctx)


def directed(ctx, only=None):
    """Every guarded template x both sides of its guard x every layout (enumerated)."""
    base = {"x": 2, "n": 3, "s": "ab", "xs": [1, 5, 2], "ys": [4], "ss": [1, 2], "d": {"ab": 1}, "t": [3, 4],
            "o": {"n": 1, "items": [2], "child": {"n": 0, "items": [], "child": None}}, "m": [[1, 2], [3, 4]], "id": 3,
            "Y": -1000, "G": 5}
    sides = [{"q": 3}, {"xs": [], "n": 0, "t": [], "d": {}, "o": {"n": 1, "items": [], "child": None}, "x": 0, "q": 0}]
    extra = [("all(y > 1 for y in xs if y != 5 if 10 // (y - 5) < 100)", {"xs": [7, 5, 0]}),
             ("add(*xs) > 1000", {}),
             # all() over elements that are judged by their truth value (not bools themselves), inside a larger condition
             ("all(y for y in xs) and len(xs) > 1000", {"xs": [1, 0, 2]}), ("all(y - 5 for y in xs) and len(xs) > 0", {"xs": [1, 5, 2]}),
             ("all(c.strip() for c in [s, CS]) and x > 0", {"s": "  "}), ("not all(y for y in xs) and len(xs) > 1000", {"xs": [1, 0]}),
             ("(all(y for y in xs) or x > 1000) and all(ident(y) for y in ys)", {"xs": [0], "ys": [3, 0]}),
             # a failed all(...) used as a VALUE (not only tested for truth): it is False
             ("int(all(y > 1 for y in xs)) + len(xs) > 1000", {"xs": [5, 0]}),
             ("(all(y > 1 for y in xs) & (x > 0)) and len(xs) > 1000", {"xs": [5, 0]}),
             ("(all(y > 1 for y in xs) is False or p(1, x) > 1000) and len(xs) > 1000", {"xs": [5, 0]}),
             ("[all(y > 1 for y in xs)].count(True) > 1000", {"xs": [5, 0]}),
             # a conditional expression whose test can not be re-computed (it hinges on a None-bound name): the branch that
             # Python did not take is not evaluated for the message either
             ("(xs[0] if id is not None else len(xs)) > 1000", {"id": None, "xs": []}),
             ("(10 // n if ident(id) else x) > 1000", {"id": None, "n": 0}),
             ("(x if id is None else xs[5]) > 1000", {"id": None}),
             ("(p(1, x) if id is not None else p(2, n)) > 1000", {"id": None}),
             # an unknown (None-bound) value inside a mapping unpacked into a call (finding D32)
             ("kw(**{'a': len([*xs, id]), 'b': n}) > 1000", {"id": None}), ("kw(**{'a': ident(id) or 1}) > 1000", {"id": None}),
             ("((m @ m)[0, 1] + x) > 1000", {}), ("x > 1000 or ((m @ (m))[1, 1] > 1000)", {}),
             # displays with unpacked items (finding D27)
             ("len([*xs, x]) > 1000", {}), ("sum((*xs, n)) > 1000", {}), ("len({*xs, x}) > 1000", {}),
             ("len({**d, 'k': x}) > 1000", {}), ("kw(**{'a': x, 'b': n}) > 1000", {}), ("(~x << 1) ** 2 > 1000 or +n / 2 > 1000", {})]
    i = 0
    full = dict(base, zs=[], q=0)
    for tmpl, params in GR.GUARDED:
        for si, side in enumerate(sides):
            for kind in LY.LAYOUTS:
                i += 1
                if only is not None and only != i:
                    continue
                inputs = dict(base)
                inputs.update(side)
                text = GR.canon(tmpl.format(k=9))
                # module globals named like the parameters carry the values of the OTHER side of the guard
                shadow = dict(full)
                shadow.update(sides[1 - si])
                check_case(ctx, {"text": text, "params": GR.free_params(text), "features": ["guarded"], "role": "require",
                                 "async": False, "inputs": inputs, "error": "default", "directed": i, "shadow": shadow,
                                 "layout": {"kind": kind, "nest": "func", "above": [], "below": []}})
    for text, over in extra:
        i += 1
        if only is not None and only != i:
            continue
        inputs = dict(base)
        inputs.update(over)
        for kind in ("one-line", "break-before-matmul", "break-before-matmul-tight") if " @ " in text else ("one-line",):
            check_case(ctx, {"text": text, "params": GR.free_params(text), "features": ["directed"], "role": "require",
                             "async": False, "inputs": inputs, "error": "default", "directed": i,
                             "layout": {"kind": kind, "nest": "func", "above": [], "below": []}})

    # every role x sync/async x every form of `error`, on a condition that names one argument only (so that an error
    # factory asks for arguments the condition does not take)
    for role in ("require", "ensure", "invariant"):
        for is_async in (False, True):
            for errform in ("default", "class", "instance", "factory"):
                i += 1
                if only is not None and only != i:
                    continue
                if role == "invariant" and is_async:
                    continue
                text = "len(self.xs) > 1000" if role == "invariant" else "len(xs) > 1000"
                check_case(ctx, {"text": text, "params": GR.free_params(text), "features": ["directed"], "role": role,
                                 "async": is_async, "inputs": dict(base), "error": errform, "directed": i,
                                 "layout": {"kind": "one-line", "nest": "func", "above": [], "below": []}})


SCOPE_SRC = """import icontract


def make_late(deco, is_async):
    # `late` is a local of this function that is bound only when bind() is called: until then its cell is empty, and a
    # condition that Python evaluates without reaching `late` is simply violated
    if is_async:
        @deco(lambda x{res}: x > 0 and late(x), 'positive and late')
        async def f(x):
            return x
    else:
        @deco(lambda x{res}: x > 0 and late(x), 'positive and late')
        def f(x):
            return x

    def bind():
        nonlocal late
        late = lambda x: True

    if is_async is None:
        late = None  # never executed: makes `late` a local of this function

    return f, bind


class Account:
    # conditions inside a class body see private attributes under their mangled names
    def __init__(self, open_, limit):
        self.__open = open_
        self.__limit = limit
        self.public = 7

    @icontract.require(lambda self, x: self.__open and x < self.__limit, 'open and below the limit')
    def pay(self, x):
        return x

    @icontract.ensure(lambda self, result: result < self.__limit and self.__open, 'result below the limit')
    def quote(self, x):
        return x

    @icontract.require(lambda self, x: self.__open and x < self.__limit, 'open and below the limit')
    async def apay(self, x):
        return x

    class Inner:
        def __init__(self, n):
            self.__n = n

        @icontract.require(lambda self: self.__n > 0, 'inner positive')
        def m(self):
            return self.__n


class Ledger:
    def __init__(self):
        self.__limit = 1000
        self.__xs = [1, -1]
        self.__b = 0
        self.__a__b = 7

    @icontract.require(lambda self, x: x < self.__limit, 'below the limit of the ledger')
    def put(self, x):
        return x


class Savings(Ledger):
    # the sub-class has private attributes of the same names; a condition may also spell out the base's mangled name
    def __init__(self):
        super().__init__()
        self.__limit = 5
        self.__xs = [2, -2]
        self.__b = 0
        self.__a__b = 7

    @icontract.require(lambda self, x: x <= self.__limit and x <= self._Ledger__limit, 'within both limits')
    def take(self, x):
        return x

    @icontract.require(lambda self: self.__b and self.__a__b[0], 'suffix names')
    def suffix(self):
        return 1

    @icontract.require(lambda self: all(v > 0 for v in self.__xs) and len([w for w in [self.__limit] if w > 100]) > 0,
                       'private attributes inside comprehensions')
    def scan(self):
        return 1


class Vault(Savings):
    # a violated contract of the BASE class on an instance of a sub-class
    pass
"""


def scope_cases(ctx, only=None):
    """Conditions whose names mean something only where they were written: a closure variable of the enclosing function
    that is not bound yet when the call is made (Python never reaches it), and private attributes in a class body
    (mangled by the compiler). A violated condition that Python evaluates without an error surfaces as the violation."""
    import icontract

    def outcome(fn):
        try:
            r = fn()
            return ("ret", r)
        except icontract.ViolationError as e:
            return ("violation", str(e))
        except BaseException as e:  # noqa
            return ("exc", type(e).__name__, str(e)[:160], repr(e.__cause__)[:120])

    cells = []
    for role in ("require", "ensure"):
        for is_async in (False, True):
            cells.append(("late-bound closure variable/%s%s" % (role, "/async" if is_async else ""), ("late", role, is_async)))
    for name in ("pay/closed", "pay/over-limit", "quote", "apay/closed", "inner", "two-classes", "suffix", "comprehension",
                 "sub-class-instance", "base-contract-on-sub-class"):
        cells.append(("private attribute/%s" % name, ("private", name)))
    for label, spec in cells:
        if only and only != label:
            continue
        res = "" if spec[0] != "late" or spec[1] == "require" else ", result"
        with RD.Module(SCOPE_SRC.replace("{res}", "")) as mod_pre, RD.Module(SCOPE_SRC.replace("{res}", ", result")) as mod_post:
            want_lines = None
            if spec[0] == "late":
                mod = mod_pre if spec[1] == "require" else mod_post
                f, bind = mod.mod.make_late(getattr(icontract, spec[1]), spec[2])
                call = (lambda: RUN_drive(f(-1))) if spec[2] else (lambda: f(-1))
                got = outcome(call)
                want_text = "x > 0 and late(x)"
            else:
                A = mod_pre.mod.Account
                fn, want_text = {
                    "pay/closed": (lambda: A(False, 10).pay(1), "self.__open and x < self.__limit"),
                    "pay/over-limit": (lambda: A(True, 10).pay(50), "self.__open and x < self.__limit"),
                    "quote": (lambda: A(True, 10).quote(50), "result < self.__limit and self.__open"),
                    "apay/closed": (lambda: RUN_drive(A(False, 10).apay(1)), "self.__open and x < self.__limit"),
                    "inner": (lambda: A.Inner(-1).m(), "self.__n > 0"),
                    "two-classes": (lambda: mod_pre.mod.Savings().take(7), "x <= self.__limit and x <= self._Ledger__limit"),
                    "suffix": (lambda: mod_pre.mod.Savings().suffix(), "self.__b and self.__a__b[0]"),
                    "comprehension": (lambda: mod_pre.mod.Savings().scan(), "all(v > 0 for v in self.__xs)"),
                    "sub-class-instance": (lambda: mod_pre.mod.Vault().take(7), "x <= self.__limit and x <= self._Ledger__limit"),
                    # the contract is the BASE's; the instance belongs to a sub-class with a private attribute of that name
                    "base-contract-on-sub-class": (lambda: mod_pre.mod.Savings().put(2000), "x < self.__limit"),
                }[spec[1]]
                got = outcome(fn)
                if spec[1] == "pay/over-limit":
                    want_lines = ["self.__limit was 10", "self.__open was True", "x was 50"]
                if spec[1] in ("two-classes", "sub-class-instance"):
                    want_lines = ["self.__limit was 5", "x was 7"]
                if spec[1] == "base-contract-on-sub-class":
                    want_lines = ["self.__limit was 1000", "x was 2000"]
                if spec[1] == "suffix":
                    want_lines = ["self.__b was 0"]
                if spec[1] == "comprehension":
                    want_lines = ["v = -2"]
        ctx.case(["scope", label], True, sample={"directed": label, "outcome": list(got)[:2]})
        ctx.count("directed:scope-cases")
        if got[0] != "violation":
            ctx.fail("scope|%s|%s" % (label.split("/")[0], got[1] if got[0] == "exc" else got[0]), {"scope_case": label},
                     "%s: Python evaluates the condition `%s` to False without an error, so the caller must get the "
                     "ViolationError; got %r" % (label, want_text, got))
        elif want_text not in got[1] or any(l not in got[1] for l in (want_lines or [])):
            ctx.fail("scope|%s|message" % label.split("/")[0], {"scope_case": label},
                     "%s: the message must show the condition `%s`%s; got:\n%s" % (
                         label, want_text, " and the lines %r" % want_lines if want_lines else "", got[1]))


def condition_kinds(ctx, only=None):
    """The condition is any callable: a named function, a functools.partial, an instance with __call__, a bound method.
    Evaluated to a falsy value it surfaces as the violation (the message names the condition somehow and lists the
    argument values; nothing address-dependent so that it is the same in every run)."""
    import functools
    import re

    import icontract

    def check(x, limit):
        return x < limit

    class Checker:
        def __call__(self, x):
            return x < 3

        def method(self, x):
            return x < 3

    class SelfChecker:
        def __call__(self, self_=None, **kw):
            return False

    kinds = {"named function": lambda: (lambda f: f)(functools.wraps(check)(lambda x: check(x, 3))) if False else _named_check,
             "functools.partial": lambda: functools.partial(check, limit=3),
             "partial of a partial": lambda: functools.partial(functools.partial(check), limit=3),
             "callable instance": lambda: Checker(), "bound method": lambda: Checker().method}
    for kname, mk in kinds.items():
        for role in ("require", "ensure"):
            for is_async in (False, True):
                if only and only != [kname, role, is_async]:
                    continue
                cond = mk()
                if role == "ensure":
                    # the postcondition looks at the argument as well: same callable, same parameter name
                    deco = icontract.ensure(cond)
                else:
                    deco = icontract.require(cond)
                if is_async:
                    async def f(x):
                        return x
                else:
                    def f(x):
                        return x
                outs = []
                for _ in range(2):
                    try:
                        g = deco(f) if not outs else g
                        r = g(5)
                        if is_async:
                            r = RUN_drive(r)
                        outs.append(("ret", r))
                    except icontract.ViolationError as e:
                        outs.append(("violation", str(e)))
                    except BaseException as e:  # noqa
                        outs.append(("exc", type(e).__name__, str(e)[:120]))
                got = outs[0]
                label = "%s as the condition of %s on %s function" % (kname, role, "an async" if is_async else "a")
                ctx.case(["condition-kind", kname, role, is_async], kname != "named function", sample={"directed": label, "outcome": list(got)[:2]})
                ctx.count("directed:condition-kinds")
                if got[0] != "violation":
                    ctx.fail("condition-kind|%s|%s" % (kname, got[1] if got[0] == "exc" else got[0]),
                             {"condition_kind": [kname, role, is_async]},
                             "%s: the condition returns False for x=5, so the caller must get the ViolationError; got %r" % (label, got))
                elif "x was 5" not in got[1] or re.search(r"0x[0-9a-f]{6,}", got[1]) or outs[1] != outs[0]:
                    ctx.fail("condition-kind|%s|message" % kname, {"condition_kind": [kname, role, is_async]},
                             "%s: the message must list `x was 5`, carry no object address and be the same on the next "
                             "violation; got %r then %r" % (label, got[1], outs[1]))


def _named_check(x):
    return x < 3


def RUN_drive(coro):
    try:
        coro.send(None)
    except StopIteration as e:
        return e.value
    coro.close()
    raise core.HarnessError("the coroutine suspended although nothing awaits")


def replay(ctx, case):
    if case.get("condition_kind"):
        before = ctx.evaluations
        condition_kinds(ctx, only=case["condition_kind"])
        ctx.evaluations = before + 1
        return
    if case.get("scope_case"):
        before = ctx.evaluations
        scope_cases(ctx, only=case["scope_case"])
        ctx.evaluations = before + 1
        return
    check_case(ctx, case)
