"""C03 - invariants are checked around every public operation on a constructed object. DESIGN 4/C03."""
from hypothesis import strategies as st

from vf import core, vrt
from vf.progmodel import driver as D
from vf.progmodel import gen as G
from vf.progmodel import harness as H
from vf.progmodel import ref as REF
from vf.props import _single as S

ID = "C03"
LEVEL = "exploration"
SHARDS = {"quick": 1, "thorough": 16}
N_QUICK, N_THOROUGH = 1200, 4000
RULE = ("case = (generated class hierarchy: root {DBC, metaclass=DBCMeta, plain class} x shape {plain, __slots__, "
        "dataclass, no __init__ at all} x 1..3 levels x 1..3 invariants per level with check_on in {CALL, SETATTR, ALL} "
        "in both application orders x members {public/async/_protected/__private/dunder methods, static and class "
        "methods, property get/set/del, Python-defined __repr__/__setattr__/__getattribute__} x constructor variants "
        "(super().__init__() absent/first/last, own public calls during construction); HISTORY of 3..10 operations on "
        "1..2 instances (construct, call, get/set/del, attribute assignment, repr, attribute read) with a truth "
        "sequence per operation for every invariant, so that an invariant can be falsy before or turn falsy during "
        "an operation). Oracle: the event trace of every operation equals the reference trace (which invariants, "
        "in which order, before/after, body run or not, error surfaced). non-trivial = history with a sub-class "
        "constructor, or an operation with a falsy invariant, or a class with both CALL-only and SETATTR-only "
        "invariants; distinct = hash(program, history). Plus enumerated families (builtin bases, renamed members, undecorated "
        "middle classes, __setattr__ aliases, constructor and invariant-order matrices) and nested helpers: a constructor / "
        "public method calls a contract-carrying helper {function, static method, method of the same / another instance} "
        "that {returns, raises from its body, is rejected}, handles it and calls public methods of the same instance - "
        "the invariants are evaluated only around the outermost operation.")
ASSUMPTIONS = ["operations reaching inherited C slots (==, hash, str on classes without Python definitions) are 'may "
               "check' in the statement and not used as probes",
               "sub-classes are generated only under DBC/DBCMeta (inheritance of contracts without them is documented "
               "as unsupported)",
               "operations nested inside another operation on the same object are C10's business (expected bare)"]
KNOWN = {
    # a constructor trace mismatch on a program in which a class defines __new__ and no class on its path has __init__
    "D19": lambda bucket, case: bucket.startswith(("inv-trace|new|", "inv-outcome|new|")) and "program" in case
    and d19_shape(case["program"]),
}


def _m(name, kind, is_async=False, decos=None, body=None, **kw):
    params, defaults = G.params_of(kind if kind in ("getter", "setter", "deleter", "init", "new") else "method")
    if kind in ("repr", "getattribute", "pysetattr"):
        params, defaults = [], {}
    d = {"name": name, "kind": kind, "async": is_async, "params": params, "defaults": defaults, "decos": decos or [],
         "body": body or {"ret": "obj"}}
    d.update(kw)
    return d


@st.composite
def st_inv(draw, ids, ons=("CALL", "CALL", "SETATTR", "ALL")):
    inv = {"cid": ids.cid(), "on": draw(st.sampled_from(list(ons))),
           "lam": draw(st.booleans()), "selfarg": draw(st.integers(0, 5)) != 0,
           "err": {"form": draw(st.sampled_from(["default", "default", "instance", "class"]))}}
    return inv


@st.composite
def st_small_decos(draw, ids, kind):
    return draw(G.st_decos(ids, kind, n_pre=(0, 1), n_post=(0, 1), n_snap=(0, 0), n_wraps=(0, 1),
                           err_forms=("default", "instance")))


def d19_shape(program):
    """A class defining __new__ while neither it nor an ancestor has a Python __init__ (finding D19)."""
    cl = program["classes"]

    def anc(ci):
        out, stack = set(), [ci]
        while stack:
            k = stack.pop()
            if k not in out:
                out.add(k)
                stack += cl[k].get("bases", [])
        return out

    for ci, c in enumerate(cl):
        a = anc(ci)
        has_new = any(m["kind"] == "new" for k in a for m in cl[k]["members"])
        has_init = any(m["kind"] == "init" for k in a for m in cl[k]["members"]) or any(
            cl[k].get("shape") == "dataclass" for k in a)
        if has_new and not has_init and any(cl[k].get("invs") for k in a):
            return True
    return False


def classes_m_async(classes, c):
    for k in list(classes) + [c]:
        for x in k["members"]:
            if x["name"] == "m" and x.get("async"):
                return True
    return False


@st.composite
def st_case(draw):
    ids = G.Ids()
    root = draw(st.sampled_from(["DBC", "DBC", "meta", "plain"]))
    shape = draw(st.sampled_from(["plain", "plain", "slots", "dataclass", "noinit"]))
    # one case in five is about an inherited property that a sub-class extends with an accessor (`@K0.p.setter`)
    force_ext = draw(st.integers(0, 4)) == 0
    # with an attribute-set invariant anywhere, every assignment (property setters included) is nested in __setattr__;
    # half of the programs have call-time invariants only so that setters are checked as operations of their own
    ons = ("CALL",) if draw(st.booleans()) else ("CALL", "CALL", "SETATTR", "ALL")
    if force_ext and root == "plain":
        root = "DBC"
    levels = 1 if root == "plain" else draw(st.integers(2 if force_ext else 1, 3))
    classes = []
    have_invs = False
    for lvl in range(levels):
        c = {"name": "K%d" % lvl, "bases": [lvl - 1] if lvl else [], "root": root,
             "shape": shape if lvl == 0 else ("slots" if shape == "slots" else "plain"), "invs": [], "members": []}
        n_inv = draw(st.integers(0 if ((have_invs or lvl + 1 < levels) and not (force_ext and lvl == 0)) else 1, 3))
        for _ in range(n_inv):
            c["invs"].append(draw(st_inv(ids, ons)))
            have_invs = True
        mem = c["members"]
        if lvl == 0:
            mem.append(_m("m", "method", draw(st.integers(0, 3)) == 0, draw(st_small_decos(ids, "method"))))
            if draw(st.booleans()):
                mem.append(_m("_prot", "method"))
            if draw(st.booleans()):
                mem.append(_m("__priv", "method"))
            if draw(st.booleans()):
                mem.append(_m("__getitem__", "method", False, draw(st_small_decos(ids, "method"))))
            if draw(st.booleans()):
                mem.append(_m("st", "static"))
            if draw(st.booleans()):
                mem.append(_m("cm", "class"))
            if force_ext:
                mem.append(_m("p", "getter", False, draw(st_small_decos(ids, "getter"))))
                other = draw(st.sampled_from(["none", "none", "setter", "deleter"]))
                if other == "setter":
                    mem.append(_m("p", "setter", False, draw(st_small_decos(ids, "setter"))))
                elif other == "deleter":
                    mem.append(_m("p", "deleter"))
            elif draw(st.booleans()):
                mem.append(_m("p", "getter", False, draw(st_small_decos(ids, "getter"))))
                if draw(st.booleans()):
                    mem.append(_m("p", "setter", False, draw(st_small_decos(ids, "setter"))))
                if draw(st.booleans()):
                    mem.append(_m("p", "deleter"))
            if draw(st.integers(0, 3)) == 0:
                # a Python-defined __getattr__ is a special method like any other (called explicitly by the histories)
                mem.append(_m("__getattr__", "method"))
            if draw(st.integers(0, 2)) == 0:
                mem.append(_m("__repr__", "repr"))
            if draw(st.integers(0, 4)) == 0:
                mem.append(_m("__getattribute__", "getattribute"))
            if shape != "dataclass" and draw(st.integers(0, 4)) == 0:
                mem.append(_m("__setattr__", "pysetattr"))
        else:
            if draw(st.booleans()):
                mem.append(_m("m", "method", classes[0]["members"][0]["async"]))
            if draw(st.booleans()):
                mem.append(_m("n%d" % lvl, "method"))
            base_p = {x["kind"] for k in classes for x in k["members"] if x["name"] == "p"}
            if "getter" in base_p and (draw(st.booleans()) or (force_ext and lvl == 1)):
                lacking = [k for k in ("setter", "deleter") if k not in base_p]
                if lacking and (draw(st.booleans()) or (force_ext and lvl == 1)):
                    # extend the INHERITED property with an accessor it lacks: `@K<base>.p.setter`
                    owner = max(ki for ki, k in enumerate(classes) if any(x["name"] == "p" for x in k["members"]))
                    acc_kind = draw(st.sampled_from(lacking))
                    mem.append(_m("p", acc_kind, False, draw(st_small_decos(ids, acc_kind)), extends=owner))
                else:
                    # redefine the whole property with the same accessors
                    for kd in ("getter", "setter", "deleter"):
                        if kd in base_p:
                            mem.append(_m("p", kd))
        define_init = {"plain": draw(st.integers(0, 3)) != 0, "slots": draw(st.integers(0, 3)) != 0,
                       "dataclass": False, "noinit": lvl > 0 and draw(st.booleans())}[shape]
        if define_init:
            fi = _m("__init__", "init", False, draw(st_small_decos(ids, "init")), {"ret": "None"})
            fi["super"] = draw(st.sampled_from(["absent", "first", "last"])) if lvl > 0 else "absent"
            if draw(st.integers(0, 2)) == 0 and not classes_m_async(classes, c):
                fi["ctor_calls"] = ["m"]
            mem.append(fi)
        if draw(st.integers(0, 7)) == 0:
            fn = _m("__new__", "new", False, [], {"ret": "None"})
            mem.append(fn)
        classes.append(c)
    prog = {"funcs": [], "classes": classes}
    inv_cids = [i["cid"] for c in classes for i in c["invs"]]
    other_cids = [x for x in D.all_cids(prog) if x not in inv_cids]

    # ---- history -------------------------------------------------------------------------------------
    def members_of(ci):
        out = {}
        k = ci
        chain = []
        while True:
            chain.append(k)
            if not classes[k]["bases"]:
                break
            k = classes[k]["bases"][0]
        for k in reversed(chain):
            for x in classes[k]["members"]:
                out[(x["name"], x["kind"])] = (x, k)
        return out

    def op_truth():
        t = {}
        for cid in inv_cids:
            r = draw(st.integers(0, 9))
            tc = draw(st.sampled_from(vrt.TRUTHY_CODES))
            if r == 0:
                t[cid] = [draw(st.sampled_from(vrt.FALSY_CODES))]
            elif r == 1:
                t[cid] = [tc, draw(st.sampled_from(vrt.FALSY_CODES))]
            else:
                t[cid] = [tc]
        for cid in other_cids:
            t[cid] = [draw(st.sampled_from(vrt.FALSY_CODES))] if draw(st.integers(0, 9)) == 0 else ["T"]
        return t

    ops = []
    n_inst = draw(st.integers(1, 2))
    inst_cls = {}
    ext = [(ci, x) for ci, c in enumerate(classes) for x in c["members"] if x.get("extends") is not None]
    for k in range(n_inst):
        ci = draw(st.integers(0, levels - 1))
        if k == 0 and ext:
            ci = draw(st.integers(ext[0][0], levels - 1))  # an instance that has the extended property
        inst_cls[k] = ci
        kinds_here = {x["kind"] for (n, kd), (x, _) in members_of(ci).items()}
        takes = "init" in kinds_here or ("new" in kinds_here and shape != "dataclass")
        ops.append({"op": "new", "cls": ci, "k": k, "args": {"x": "a:cx"} if takes and draw(st.booleans()) else {},
                    "truth": op_truth()})
    for _ in range(draw(st.integers(2, 8))):
        k = draw(st.integers(0, n_inst - 1))
        ci = inst_cls[k]
        mm = members_of(ci)
        choices = []
        for (name, kind), (x, owner) in sorted(mm.items()):
            if kind in ("method", "static", "class"):
                o = {"op": "call", "k": k, "m": name, "args": {"x": "a:x"}}
                if name == "__priv":
                    o["as"] = "_%s__priv" % classes[owner]["name"]
                choices.append(o)
                if kind == "method" and name in ("m", "n1", "n2"):
                    choices.append(dict(o, unbound_kw=True))  # K.m(self=o, x=...): the instance arrives by keyword
            elif kind == "getter":
                choices.append({"op": "get", "k": k, "m": name})
            elif kind == "setter":
                choices.append({"op": "set", "k": k, "m": name, "args": {"value": "a:v"}})
            elif kind == "deleter":
                choices.append({"op": "del", "k": k, "m": name})
        choices += [{"op": "setattr", "k": k}, {"op": "repr", "k": k}, {"op": "read", "k": k},
                    {"op": "new", "cls": ci, "k": k, "args": {}}]
        o = dict(draw(st.sampled_from(choices)))
        o["truth"] = op_truth()
        ops.append(o)
    if ext and not any(x["name"] == "p" for c in classes[ext[0][0] + 1:] for x in c["members"]):
        # use the accessor that was added to the inherited property (somewhere in the history, and again at its end)
        acc = ({"op": "set", "k": 0, "m": "p", "args": {"value": "a:v"}} if ext[0][1]["kind"] == "setter" else
               {"op": "del", "k": 0, "m": "p"})
        for pos in (draw(st.integers(1, len(ops))), len(ops) + 1):
            ops.insert(pos, dict(acc, truth=op_truth()))
    return {"program": prog, "ops": ops, "codes": {}, "masks": [0], "fixed_truth": {}, "d19_shape": d19_shape(prog)}


def judge(ctx, case, truth, res, model):
    if res.def_mismatch:
        sig = D.struct_sig(case)
        for name, exp, real in res.def_mismatch:
            ctx.fail("definition|%s|exp:%s|real:%s" % (sig, exp.split(" ")[0], real.split(":")[0]), case, D.describe(
                case, res, "definition of %s: expected %s, got %s" % (name, exp, real)))
        return
    cl = case["program"]["classes"]
    shape = cl[0].get("shape")
    root = cl[0].get("root")
    for i, op, rs, qs, ro, qo in S.per_op(res):
        mk = op["op"] + (":" + op["m"] if "m" in op else "")
        if not H.traces_match(rs, qs):
            d = H.first_diff(H.strip_opt(rs), qs) or H.first_diff(rs, qs)
            ctx.fail("inv-trace|%s|%s/%s|ref:%s|real:%s" % (mk, root, shape, S.ev_short(d[1]), S.ev_short(d[2])), case,
                     D.describe(case, res, "op %d %r: events differ at %d\n reference: %r\n real:      %r\nreference "
                                           "trace:\n%s\nreal trace:\n%s" % (i, op, d[0], d[1], d[2], H.fmt_trace(rs),
                                                                             H.fmt_trace(qs))))
            return
        if not H.outcome_matches(ro, qo):
            ctx.fail("inv-outcome|%s|%s/%s|ref:%s|real:%s" % (mk, root, shape, ro[0], qo[0]), case, D.describe(
                case, res, "op %d %r: expected %r, got %r\nreal trace:\n%s" % (i, op, ro[:2], qo[:2], H.fmt_trace(qs))))
            return


def nontrivial(case, truth, res, mask, n):
    cl = case["program"]["classes"]
    if any(op["op"] == "new" and op["cls"] > 0 for op in case["ops"]) and len(case["ops"]) >= 3:
        return True
    inv = {i["cid"] for c in cl for i in c["invs"]}
    for op in case["ops"]:
        for cid, seq in (op.get("truth") or {}).items():
            if int(cid) in inv and any(not vrt.is_truthy(x) for x in seq):
                return True
    ons = {i["on"] for c in cl for i in c["invs"]}
    return "CALL" in ons and "SETATTR" in ons


def exclude(ctx, case, model):
    if case.get("d19_shape") and "D19" in getattr(ctx, "active_known", set()):
        return "D19"
    return None


def hist(ctx, case):
    cl = case["program"]["classes"]
    ctx.count("root:%s" % cl[0]["root"])
    ctx.count("shape:%s" % cl[0]["shape"])
    ctx.count("levels:%d" % len(cl))
    for op in case["ops"]:
        ctx.count("op:%s" % op["op"])
    ext = [(ci, m["kind"]) for ci, c in enumerate(cl) for m in c["members"] if m.get("extends") is not None]
    if ext:
        ctx.count("inherited property extended with an accessor")
        kinds = {"setter": "set", "deleter": "del"}
        if any(op["op"] == kinds[k] and op.get("m") == "p" for _, k in ext for op in case["ops"]):
            ctx.count("... and the added accessor is used")


def run(ctx, tier, seed, shard, nshards):
    from hypothesis import given

    n = N_QUICK if tier == "quick" else N_THOROUGH

    @given(st_case())
    def test(case):
        hist(ctx, case)
        D.run_one(ctx, case, judge, exclude=exclude, nontrivial=nontrivial)

    core.run_hypothesis(test, seed, n)
    if shard == 0:
        directed(ctx)


D19_CASE = {
    "program": {"funcs": [], "classes": [
        {"name": "K0", "bases": [], "root": "DBC", "shape": "noinit", "members": [],
         "invs": [{"cid": 1, "on": "CALL", "lam": False, "selfarg": True, "err": {"form": "default"}}]},
        {"name": "K1", "bases": [0], "root": "DBC", "shape": "plain", "invs": [], "members": [
            {"name": "__new__", "kind": "new", "async": False, "params": ["x", "y"], "defaults": {"x": "None", "y": "None"},
             "decos": [{"t": "ensure", "cid": 2, "args": [], "lam": False, "err": {"form": "default"}}],
             "body": {"ret": "None"}}]}]},
    "ops": [{"op": "new", "cls": 1, "k": 0, "args": {}, "truth": {1: ["T"], 2: ["T"]}}],
    "codes": {}, "masks": [0], "fixed_truth": {}, "d19_shape": True, "directed": "D19",
}


def constructor_matrix():
    """Enumerated: chain of three classes; every level {no __init__, __init__ without super call, with super().__init__()
    first / last}; the invariants sit on level 0, 1 or 2; every class is constructed (all invariants truthy, then the
    invariant falsy) and its public method called."""
    import itertools

    opts = ["none", "absent", "first", "last"]
    for inits in itertools.product(opts, repeat=3):
        for inv_level in (0, 1, 2):
            for root in ("DBC", "meta"):
                classes = []
                for lvl in range(3):
                    mem = []
                    if lvl == 0:
                        mem.append(_m("m", "method"))
                    if inits[lvl] != "none":
                        fi = _m("__init__", "init", False, [], {"ret": "None"})
                        fi["super"] = inits[lvl] if lvl > 0 else "absent"
                        mem.append(fi)
                    invs = []
                    if lvl == inv_level:
                        invs.append({"cid": 1, "on": "CALL", "lam": False, "selfarg": True, "err": {"form": "default"}})
                    classes.append({"name": "K%d" % lvl, "bases": [lvl - 1] if lvl else [], "root": root,
                                    "shape": "noinit" if inits[0] == "none" else "plain", "invs": invs, "members": mem})
                prog = {"funcs": [], "classes": classes}
                ops = []
                for ci in range(3):
                    for code in ("T", "F"):
                        ops.append({"op": "new", "cls": ci, "k": ci, "args": {}, "truth": {1: [code]}})
                    ops.append({"op": "call", "k": ci, "m": "m", "args": {"x": "a:x"}, "truth": {1: ["T"]}})
                yield {"program": prog, "ops": ops, "codes": {}, "masks": [0], "fixed_truth": {}, "d19_shape": False,
                       "matrix": [list(inits), inv_level, root]}


def diamond_invariant_matrix():
    """Enumerated diamonds K3(K1, K2), K1(K0), K2(K0): which of root / left arm / right arm / bottom carry an invariant of
    their own (all 16 subsets, check_on CALL / SETATTR / ALL), members on the root and on both arms; every invariant in
    turn turns falsy during a method call, a call of an arm's member, an assignment and a construction: the invariants of
    EVERY class on every path are evaluated (the root's once per path), whichever base comes second."""
    import itertools

    for owners in itertools.product((False, True), repeat=4):
        if not any(owners):
            continue
        for on in ("CALL", "SETATTR", "ALL"):
            invs, cid = [], 0
            for has in owners:
                cid += 1
                invs.append([{"cid": cid, "on": on, "lam": False, "selfarg": True, "err": {"form": "default"}}] if has else [])
            classes = [{"name": "K0", "bases": [], "root": "DBC", "shape": "plain", "invs": invs[0], "members": [_m("m", "method")]},
                       {"name": "K1", "bases": [0], "root": "DBC", "shape": "plain", "invs": invs[1], "members": [_m("left", "method")]},
                       {"name": "K2", "bases": [0], "root": "DBC", "shape": "plain", "invs": invs[2], "members": [_m("right", "method")]},
                       {"name": "K3", "bases": [1, 2], "root": "DBC", "shape": "plain", "invs": invs[3], "members": [_m("own", "method")]}]
            cids = [i["cid"] for g in invs for i in g]
            ops = [{"op": "new", "cls": 3, "k": 0, "args": {}, "truth": {c: ["T"] for c in cids}}]
            for opx in ({"op": "call", "k": 0, "m": "m", "args": {"x": "a:x"}}, {"op": "call", "k": 0, "m": "left", "args": {"x": "a:x"}},
                        {"op": "call", "k": 0, "m": "right", "args": {"x": "a:x"}}, {"op": "call", "k": 0, "m": "own", "args": {"x": "a:x"}},
                        {"op": "setattr", "k": 0}):
                ops.append(dict(opx, truth={c: ["T"] for c in cids}))
                for bad in cids:
                    ops.append(dict(opx, truth={c: (["T", "F"] if c == bad else ["T"]) for c in cids}))
                    ops.append({"op": "new", "cls": 3, "k": 0, "args": {}, "truth": {c: ["T"] for c in cids}})
            for bad in cids:
                ops.append({"op": "new", "cls": 3, "k": 1, "args": {}, "truth": {c: (["F"] if c == bad else ["T"]) for c in cids}})
            yield {"program": {"funcs": [], "classes": classes}, "ops": ops, "codes": {}, "masks": [0], "fixed_truth": {},
                   "d19_shape": False, "matrix": ["diamond-invariants", list(owners), on]}


def invariant_order_matrix():
    """Enumerated: the invariants of a hierarchy in every order of check_on (one or two invariants on the base, possibly
    split over two bases), and a sub-class WITHOUT invariants of its own that defines NEW members (method, property,
    special method): which members are checked must depend on the set of invariants, not on their order."""
    import itertools

    ons = ("CALL", "SETATTR", "ALL")
    combos = list(itertools.product(ons, repeat=2)) + [(a,) for a in ons]
    for combo in combos:
        for layout in ("one-base", "two-bases"):
            if layout == "two-bases" and len(combo) < 2:
                continue
            invs = [{"cid": i + 1, "on": on, "lam": False, "selfarg": True, "err": {"form": "default"}} for i, on in enumerate(combo)]
            new_members = [_m("fresh", "method"), _m("q", "getter"), _m("__len__", "method")]
            if layout == "one-base":
                classes = [{"name": "K0", "bases": [], "root": "DBC", "shape": "plain", "invs": invs, "members": [_m("m", "method")]},
                           {"name": "K1", "bases": [0], "root": "DBC", "shape": "plain", "invs": [], "members": new_members}]
                last = 1
            else:
                classes = [{"name": "K0", "bases": [], "root": "DBC", "shape": "plain", "invs": invs[:1], "members": [_m("m", "method")]},
                           {"name": "K1", "bases": [], "root": "DBC", "shape": "plain", "invs": invs[1:], "members": [_m("other", "method")]},
                           {"name": "K2", "bases": [0, 1], "root": "DBC", "shape": "plain", "invs": [], "members": new_members}]
                last = 2
            cids = [i["cid"] for i in invs]
            ops = [{"op": "new", "cls": last, "k": 0, "args": {}, "truth": {c: ["T"] for c in cids}}]
            for opx in ({"op": "call", "k": 0, "m": "fresh", "args": {"x": "a:x"}}, {"op": "get", "k": 0, "m": "q"},
                        {"op": "call", "k": 0, "m": "__len__", "args": {"x": "a:x"}}, {"op": "call", "k": 0, "m": "m", "args": {"x": "a:x"}},
                        {"op": "setattr", "k": 0}):
                ops.append(dict(opx, truth={c: ["T"] for c in cids}))
                for bad in cids:
                    ops.append(dict(opx, truth={c: (["T", "F"] if c == bad else ["T"]) for c in cids}))
                    ops.append({"op": "new", "cls": last, "k": 0, "args": {}, "truth": {c: ["T"] for c in cids}})
            yield {"program": {"funcs": [], "classes": classes}, "ops": ops, "codes": {}, "masks": [0], "fixed_truth": {},
                   "d19_shape": False, "matrix": ["inv-order", list(combo), layout]}


def builtin_bases(ctx):
    """Classes with invariants that have no Python __init__ but inherit a C-level one (sub-classes of list, dict, set,
    deque, Exception, bytearray): decorated directly, as a DBC class and as a sub-class inheriting the invariant. The
    invariants are evaluated after construction (violating constructions are rejected) and around public methods."""
    import collections

    import icontract

    seen = []

    def inv(self):
        seen.append("inv")
        return len(self.args if isinstance(self, BaseException) else self) < 3

    bases = {"list": (list, [1, 2, 3, 4]), "dict": (dict, {1: 1, 2: 2, 3: 3}), "set": (set, {1, 2, 3}),
             "deque": (collections.deque, [1, 2, 3]), "bytearray": (bytearray, b"abcd")}
    for bname, (base, big) in bases.items():
        for how in ("decorated", "dbc", "inherited"):
            if how == "decorated":
                K = icontract.invariant(inv, "short")(type("K", (base,), {"size": lambda self: 7}))
            elif how == "dbc":
                K = icontract.invariant(inv, "short")(type(icontract.DBC)("K", (icontract.DBC, base), {"size": lambda self: 7}))
            else:
                P = icontract.invariant(inv, "short")(type(icontract.DBC)("P", (icontract.DBC, base), {}))
                K = type(icontract.DBC)("K", (P,), {"size": lambda self: 7})
            label = "%s sub-class (%s)" % (bname, how)
            for what, fn, want in (("violating construction", lambda: K(big), "violation"), ("valid construction", lambda: K(), "ok"),
                                   ("public method", lambda: K().size(), "ok")):
                del seen[:]
                try:
                    fn()
                    got = "ok"
                except icontract.ViolationError:
                    got = "violation"
                except BaseException as e:  # noqa
                    got = "%s: %s" % (type(e).__name__, e)
                ctx.case(["builtin-base", bname, how, what], True, sample={"directed": label, "operation": what, "outcome": got})
                min_evals = {"violating construction": 1, "valid construction": 1, "public method": 3}[what]
                if got != want or len(seen) < min_evals:
                    ctx.fail("builtin-base|%s|%s" % (how, what.split()[0]), {"builtin_base": [bname, how, what]},
                             "%s, %s: expected %s with at least %d invariant evaluation(s), got %s with %d" % (
                                 label, what, want, min_evals, got, len(seen)))


def renamed_members(ctx, only=None):
    """Members whose function is not called what the attribute is called: aliases (``debit = withdraw``, ``__call__ = m``),
    lambdas, functions behind a decorator that does not preserve ``__name__`` - as public methods and as ``__init__``. The
    invariants hold after construction and around every public operation whatever the function object's name is."""
    import icontract

    seen, bodies = [], []

    def inv(self):
        seen.append("inv")
        return self.__dict__.get("v", 1) > 0

    def nowraps(fn):
        def inner(self, *a, **kw):
            return fn(self, *a, **kw)

        return inner

    def withdraw(self):
        bodies.append("withdraw")
        return 7

    def setup(self, v=1):
        bodies.append("init")
        self.v = v

    def __init__(self, v=1):
        bodies.append("init")
        self.v = v

    plain_init = __init__

    variants = {
        "alias": ({"withdraw": withdraw, "debit": withdraw, "__init__": plain_init}, "debit"),
        "alias-original": ({"withdraw": withdraw, "debit": withdraw, "__init__": plain_init}, "withdraw"),
        "dunder-alias": ({"withdraw": withdraw, "__call__": withdraw, "__init__": plain_init}, "__call__"),
        "lambda": ({"size": lambda self: bodies.append("withdraw") or 7, "__init__": plain_init}, "size"),
        "no-wraps-decorator": ({"withdraw": nowraps(withdraw), "__init__": plain_init}, "withdraw"),
        "init-behind-no-wraps-decorator": ({"withdraw": withdraw, "__init__": nowraps(plain_init)}, "withdraw"),
        "init-alias": ({"withdraw": withdraw, "_setup": setup, "__init__": setup}, "withdraw"),
        "init-lambda": ({"withdraw": withdraw, "__init__": lambda self, v=1: bodies.append("init") or self.__dict__.update(v=v)},
                        "withdraw"),
    }
    meta = type(icontract.DBC)
    for vname, (ns, member) in variants.items():
        for how in ("decorated", "dbc", "inherited"):
            if only and only != [vname, how]:
                continue
            if how == "decorated":
                K = icontract.invariant(inv, "positive")(type("K", (), dict(ns)))
            elif how == "dbc":
                K = icontract.invariant(inv, "positive")(meta("K", (icontract.DBC,), dict(ns)))
            else:
                P = icontract.invariant(inv, "positive")(meta("P", (icontract.DBC,), {}))
                K = meta("K", (P,), dict(ns))
            label = "%s (%s)" % (vname, how)

            def construct_invalid():
                K(-1)

            def call_valid():
                k = K()
                del seen[:], bodies[:]
                getattr(k, member)() if member != "__call__" else k()

            def call_corrupted():
                k = K()
                k.__dict__["v"] = -1
                del seen[:], bodies[:]
                getattr(k, member)() if member != "__call__" else k()

            for what, fn, want, want_evals, want_bodies in (
                    ("violating construction", construct_invalid, "violation", 1, ["init"]),
                    ("public operation on a valid object", call_valid, "ok", 2, ["withdraw"]),
                    ("public operation on a corrupted object", call_corrupted, "violation", 1, [])):
                del seen[:], bodies[:]
                try:
                    fn()
                    got = "ok"
                except icontract.ViolationError:
                    got = "violation"
                except BaseException as e:  # noqa
                    got = "%s: %s" % (type(e).__name__, e)
                ctx.case(["renamed-member", vname, how, what], True, sample={"directed": label, "operation": what, "outcome": got})
                ctx.count("directed:renamed-members")
                if got != want or len(seen) != want_evals or bodies != want_bodies:
                    ctx.fail("renamed-member|%s|%s|%s" % (vname, how, what.split()[0]), {"renamed_member": [vname, how]},
                             "%s, %s: expected %s with %d invariant evaluation(s) and bodies %r, got %s with %d and %r" % (
                                 label, what, want, want_evals, want_bodies, got, len(seen), bodies))
            stray = sorted(n for n in ("inner", "<lambda>", "setup", "plain_init") if n in vars(K))
            if stray:
                ctx.fail("renamed-member|%s|%s|stray-attribute" % (vname, how), {"renamed_member": [vname, how]},
                         "%s: the class got attributes it never defined: %r" % (label, stray))


def setattr_alias_cases(ctx, only=None):
    """__setattr__ bound to a function that is called something else (an alias, a decorator that does not preserve the
    name): attribute assignments are still the attribute-assignment operation - the invariants that ask for it are checked
    around them, the call-time ones are not."""
    import icontract

    E = icontract.InvariantCheckEvent

    def nowraps(fn):
        def inner(self, k, v):
            return fn(self, k, v)
        return inner

    for variant in ("plain def", "alias", "no-wraps decorator"):
        for check_on in ("SETATTR", "CALL", "ALL"):
            if only and only != [variant, check_on]:
                continue
            seen = []

            def inv(self):
                seen.append("inv")
                return self.__dict__.get("x", 1) > 0

            def _set(self, k, v):
                object.__setattr__(self, k, v)

            def __setattr__(self, k, v):
                object.__setattr__(self, k, v)

            ns = {"__init__": None}

            def __init__(self):
                self.__dict__["x"] = 1
            ns = {"__init__": __init__, "__setattr__": {"plain def": __setattr__, "alias": _set, "no-wraps decorator": nowraps(_set)}[variant]}
            if variant == "alias":
                ns["_set"] = _set
            K = icontract.invariant(inv, check_on=getattr(E, check_on))(type("K", (), ns))
            label = "__setattr__ as %s, invariant checked on %s" % (variant, check_on)
            checked = check_on in ("SETATTR", "ALL")
            for value, want, want_inv in ((5, "ok", 2 if checked else 0), (-1, "violation" if checked else "ok", 2 if checked else 0)):
                k = K()
                del seen[:]
                try:
                    k.x = value
                    got = "ok"
                except icontract.ViolationError:
                    got = "violation"
                except BaseException as e:  # noqa
                    got = "%s: %s" % (type(e).__name__, e)
                ctx.case(["setattr-alias", variant, check_on, value], True, sample={"directed": label, "assigned": value, "outcome": got})
                ctx.count("directed:setattr-alias-cases")
                if got != want or len(seen) != want_inv:
                    ctx.fail("setattr-alias|%s|%s" % (variant.split()[0], check_on), {"setattr_alias": [variant, check_on]},
                             "%s, k.x = %d: expected %s with %d invariant evaluation(s), got %s with %d" % (
                                 label, value, want, want_inv, got, len(seen)))
                    break


def undecorated_middle_cases(ctx, only=None):
    """A class with an invariant, an UNDECORATED plain sub-class that adds public members, and a leaf below it that is set
    up for invariants again (decorated with a further invariant, or mixing in icontract.DBC): the members the leaf
    inherits from the middle class are public operations of the leaf - its invariants hold around them."""
    import icontract

    for leaf_kind in ("decorated again", "mixes in DBC"):
        for base_kind in ("decorated", "DBC"):
            if base_kind == "DBC" and leaf_kind == "mixes in DBC":
                continue  # (a DBC base makes every sub-class a DBC class: nothing is left undecorated)
            if base_kind == "DBC":
                continue
            for member in ("method", "property", "special method"):
                if only and only != [leaf_kind, member]:
                    continue
                seen, bodies = [], []

                def inv(self):
                    seen.append("inv")
                    return self.__dict__.get("v", 1) > 0

                class Base:
                    def __init__(self):
                        self.v = 1

                    def b(self):
                        return 0
                Base = icontract.invariant(inv)(Base)

                class Mid(Base):
                    def m(self):
                        bodies.append("m")
                        return 7

                    @property
                    def p(self):
                        bodies.append("p")
                        return 7

                    def __len__(self):
                        bodies.append("len")
                        return 7

                if leaf_kind == "decorated again":
                    Leaf = icontract.invariant(lambda self: True)(type("Leaf", (Mid,), {}))
                else:
                    Leaf = type(icontract.DBC)("Leaf", (Mid, icontract.DBC), {})
                use = {"method": lambda o: o.m(), "property": lambda o: o.p, "special method": lambda o: len(o)}[member]
                label = "leaf %s, %s of the undecorated middle class" % (leaf_kind, member)
                for what, corrupt, want, want_inv, want_bodies in (("valid object", False, "ok", 2, 1), ("corrupted object", True, "violation", 1, 0)):
                    o = Leaf()
                    if corrupt:
                        o.__dict__["v"] = -1
                    del seen[:], bodies[:]
                    try:
                        use(o)
                        got = "ok"
                    except icontract.ViolationError:
                        got = "violation"
                    except BaseException as e:  # noqa
                        got = "%s: %s" % (type(e).__name__, e)
                    ctx.case(["undecorated-middle", leaf_kind, member, what], True, sample={"directed": label, "on": what, "outcome": got})
                    ctx.count("directed:undecorated-middle-cases")
                    if got != want or len(seen) != want_inv or len(bodies) != want_bodies:
                        ctx.fail("undecorated-middle|%s|%s" % (leaf_kind.split()[0], member.split()[0]), {"undecorated_middle": [leaf_kind, member]},
                                 "%s, %s: expected %s with %d evaluation(s) of the base invariant and %d body run(s), got %s with %d "
                                 "and %d" % (label, what, want, want_inv, want_bodies, got, len(seen), len(bodies)))
                        break


def nested_helper_cases(ctx, only=None):
    """While a constructor or a public method of an invariant class runs, it calls a contract-carrying helper (a function,
    a static method, another public method of the same instance, a method of another instance), the helper returns /
    its BODY raises / its precondition is violated, the caller handles that and goes on calling public methods of the
    same instance. The invariants of the instance are evaluated exactly once (after the constructor) or twice (around the
    outermost method call), never in between. Enumerated: caller x helper x helper outcome x number of helper calls x
    sync/async."""
    import itertools
    import icontract
    from vf.progmodel.run import drive

    for is_async, site, helper, outcome, repeat in itertools.product(
            (False, True), ("init", "method"), ("function-pre", "function-post", "static", "same-instance", "other-instance"),
            ("returns", "body-raises", "violated"), (1, 2)):
        if is_async and site == "init":
            continue
        key = "%s|%s|%s|%s|%d" % ("async" if is_async else "sync", site, helper, outcome, repeat)
        if only is not None and only != key:
            continue
        evals = []

        def inv(self):
            evals.append((self.tag, getattr(self, "state", "unset")))
            return True

        def run_body(flag):
            if flag == "body-raises":
                raise KeyError("raised by the body of the helper")
            return 1

        def ok(flag):
            return flag != "violated"

        if is_async:
            @icontract.require(ok)
            async def fpre(flag):
                return run_body(flag)

            @icontract.ensure(lambda result: True)
            @icontract.require(ok)
            async def fpost(flag):
                return run_body(flag)
        else:
            @icontract.require(ok)
            def fpre(flag):
                return run_body(flag)

            @icontract.ensure(lambda result: True)
            @icontract.require(ok)
            def fpost(flag):
                return run_body(flag)

        def call(thunk):
            r = thunk()
            return drive(r) if is_async else r

        def steps(self):
            for _ in range(repeat):
                try:
                    if helper == "function-pre":
                        call(lambda: fpre(outcome))
                    elif helper == "function-post":
                        call(lambda: fpost(outcome))
                    elif helper == "static":
                        call(lambda: self.st(outcome))
                    elif helper == "same-instance":
                        call(lambda: self.helper(outcome))
                    else:
                        call(lambda: self.other.helper(outcome))
                except (KeyError, icontract.ViolationError):
                    pass
                self.note()

        ns = {"icontract": icontract, "inv": inv, "ok": ok, "run_body": run_body, "steps": steps}
        A = "async " if is_async else ""
        src = [
            "@icontract.invariant(inv)",
            "class K:",
            "    def __init__(self, tag, other=None, busy=False):",
            "        self.tag = tag",
            "        self.other = other",
            "        self.notes = 0",
            "        if busy:",
            "            steps(self)",
            "        self.state = 'stable'",
            "    def note(self):",
            "        self.notes += 1",
            "    @staticmethod",
            "    @icontract.require(ok)",
            "    %sdef st(flag):" % A,
            "        return run_body(flag)",
            "    @icontract.require(ok)",
            "    %sdef helper(self, flag):" % A,
            "        return run_body(flag)",
            "    %sdef work(self):" % A,
            "        self.state = 'mid'",
            "        steps(self)",
            "        self.state = 'stable'",
        ]
        exec("\n".join(src), ns)
        K = ns["K"]
        other = K("other")
        del evals[:]
        err = None
        try:
            if site == "init":
                o = K("main", other, busy=True)
                want = [("main", "stable")]
            else:
                o = K("main", other)
                del evals[:]
                call(lambda: o.work())
                want = [("main", "stable"), ("main", "stable")]
        except BaseException as e:  # noqa
            err = "%s: %s" % (type(e).__name__, str(e).splitlines()[0] if str(e) else "")
            o = None
        got = [e for e in evals if e[0] == "main"]
        ctx.case(["nested-helper", key], outcome != "returns", sample={"directed": "nested helper: " + key, "evaluations": [list(e) for e in evals]})
        ctx.count("directed:nested-helper")
        if err is not None or got != want or (o is not None and o.notes != repeat):
            ctx.fail("nested-helper|%s|%s|%s|%s" % ("async" if is_async else "sync", site, helper, outcome), {"nested_helper": key},
                     "%s: the invariant of the instance must be evaluated on (instance, state) %r only; evaluated %r%s" % (
                         key, want, got, "; the operation raised " + err if err else ""))


def directed(ctx, only=None):
    D.run_one(ctx, dict(D19_CASE), judge, nontrivial=lambda *a: True)
    if only is None:
        builtin_bases(ctx)
        renamed_members(ctx)
        undecorated_middle_cases(ctx)
        setattr_alias_cases(ctx)
        nested_helper_cases(ctx)
    if only is None:
        n = 0
        for case in constructor_matrix():
            D.run_one(ctx, case, judge, nontrivial=lambda *a: True)
            n += 1
        ctx.count("constructor_matrix_programs", n)
        n = 0
        for case in invariant_order_matrix():
            D.run_one(ctx, case, judge, nontrivial=lambda *a: True)
            n += 1
        ctx.count("invariant_order_matrix_programs", n)
        n = 0
        for case in diamond_invariant_matrix():
            D.run_one(ctx, case, judge, nontrivial=lambda *a: True)
            n += 1
        ctx.count("diamond_invariant_matrix_programs", n)


def replay(ctx, case):
    if case.get("nested_helper"):
        before = ctx.evaluations
        nested_helper_cases(ctx, only=case["nested_helper"])
        ctx.evaluations = before + 1
        return
    if case.get("setattr_alias"):
        before = ctx.evaluations
        setattr_alias_cases(ctx, only=case["setattr_alias"])
        ctx.evaluations = before + 1
        return
    if case.get("undecorated_middle"):
        before = ctx.evaluations
        undecorated_middle_cases(ctx, only=case["undecorated_middle"])
        ctx.evaluations = before + 1
        return
    if case.get("renamed_member"):
        before = ctx.evaluations
        renamed_members(ctx, only=case["renamed_member"])
        ctx.evaluations = before + 1
        return
    if case.get("builtin_base"):
        before = ctx.evaluations
        builtin_bases(ctx)
        ctx.evaluations = before
        return
    case = dict(case)
    case.setdefault("codes", {})
    case["masks"] = [0]
    case["fixed_truth"] = {}
    case["d19_shape"] = d19_shape(case["program"])
    D.run_one(ctx, case, judge, nontrivial=lambda *a: True)
