"""C09 - the `error` argument decides exactly what a violation raises. DESIGN 4/C09."""
import copy
import functools

from hypothesis import strategies as st

from vf import core, vrt
from vf.progmodel import driver as D
from vf.progmodel import gen as G
from vf.progmodel import harness as H
from vf.progmodel import ref as REF
from vf.progmodel import run as RUN
from vf.props import _single as S

ID = "C09"
LEVEL = "exploration"
SHARDS = {"quick": 1, "thorough": 8}
RULE = ("(1) complete matrix: error form {absent, Exception subclass, BaseException subclass, instance, lambda, def, "
        "bound method} x role {pre, post, invariant} x callable kind {function, method, static, class method, property "
        "get/set/del, __init__, __new__; invariant triggers: method, async method, getter, constructor, attribute "
        "assignment} x sync/async; every cell violated three times in a row; oracle: type/identity/args of the raised "
        "error, factory call count and received values (identity), message of the class form equal to the message of "
        "the twin contract without `error` up to the location line; plus factories returning a non-exception and "
        "naming an unavailable value (TypeError), and invalid `error` kinds (ValueError at decorator creation) for all "
        "three decorators. (2) generated: programs of the C01/C02 families with factories naming drawn subsets of "
        "{parameters, _ARGS, _KWARGS, result, OLD, self, an unavailable name}, all truth assignments; oracle = "
        "reference trace/outcome. non-trivial = every matrix cell; generated cases with a factory-form error on a "
        "falsy contract; distinct = hash(cell) / hash(program, ops, assignment).")
ASSUMPTIONS = ["contracts are identified by description '#<id>' inside generated messages",
               "message text itself (values shown) is C06/C07's business; C09 compares class-form and default-form "
               "messages of twin contracts with each other"]
FORMS = ["default", "class", "baseclass", "instance", "lambda", "def", "method"]
KNOWN = {}


def _func(kind, is_async, decos, name):
    params, defaults = G.params_of(kind)
    return {"name": name, "kind": kind, "async": is_async, "params": params, "defaults": defaults, "decos": decos,
            "body": {"ret": "obj"}}


def cell(form, role, kind, is_async, err_args=None, trigger=None):
    """Minimal program with one contract of the given role/form, the op that violates it, and its cid."""
    err = {"form": form}
    names = G.avail_names(kind if role != "inv" else "method")
    if form in ("lambda", "def", "method"):
        if err_args is not None:
            err["args"] = err_args
        elif role == "inv":
            err["args"] = ["self"]
        else:
            err["args"] = [n for n in names if n != "cls"][:2] + (["result"] if role == "post" else [])
    if role == "inv":
        members = [_func("method", trigger == "amethod", [], "m"), _func("getter", False, [], "p"),
                   _func("init", False, [], "__init__")]
        members[2]["super"] = "absent"
        inv = {"cid": 1, "on": "ALL" if trigger == "setattr" else "CALL", "lam": False, "selfarg": True, "err": err}
        prog = {"funcs": [], "classes": [{"name": "K0", "bases": [], "root": "DBC", "shape": "plain", "invs": [inv],
                                          "members": members}]}
        hold = {"truth": {1: ["T"]}}
        viol = {"truth": {1: ["F"]}}
        if trigger == "init":
            ops = [dict({"op": "new", "cls": 0, "k": 0, "args": {}}, **viol)] * 3
        else:
            t = {"method": {"op": "call", "k": 0, "m": "m", "args": {"x": "a:x"}},
                 "amethod": {"op": "call", "k": 0, "m": "m", "args": {"x": "a:x"}},
                 "getter": {"op": "get", "k": 0, "m": "p"}, "setattr": {"op": "setattr", "k": 0}}[trigger]
            ops = [dict({"op": "new", "cls": 0, "k": 0, "args": {}}, **hold)] + [dict(t, **viol)] * 3
        return prog, ops
    d = {"t": "require" if role == "pre" else "ensure", "cid": 1, "args": [], "lam": False, "err": err}
    if kind == "function":
        f = _func(kind, is_async, [d], "f0")
        return {"funcs": [f], "classes": []}, [{"op": "callf", "f": "f0", "args": {"x": "a:x"}, "truth": {1: ["F"]}}] * 3
    name = "p" if kind in ("getter", "setter", "deleter") else {"init": "__init__", "new": "__new__"}.get(kind, "m")
    f = _func(kind, is_async, [d], name)
    members = [f]
    if kind in ("setter", "deleter"):
        members = [_func("getter", False, [], "p"), f]
    if kind == "init":
        f["super"] = "absent"
    if kind == "new":
        f["body"] = {"ret": "None"}
        fi = _func("init", False, [], "__init__")
        fi["super"] = "absent"
        members.append(fi)
    prog = {"funcs": [], "classes": [{"name": "K0", "bases": [], "root": "DBC", "shape": "plain", "invs": [],
                                      "members": members}]}
    if kind in ("init", "new"):
        ops = [{"op": "new", "cls": 0, "k": 0, "args": {"x": "a:x"}, "truth": {1: ["F"]}}] * 3
    else:
        args = {"value": "a:v"} if kind == "setter" else ({} if kind in ("getter", "deleter") else {"x": "a:x"})
        ops = [{"op": "new", "cls": 0, "k": 0, "args": {}}] + [dict(G.op_for_member(kind, 0, name, args),
                                                                     truth={1: ["F"]})] * 3
    return prog, ops


def matrix():
    kinds = [("function", False), ("function", True), ("method", False), ("method", True), ("static", False),
             ("static", True), ("class", False), ("class", True), ("getter", False), ("setter", False),
             ("deleter", False), ("init", False), ("new", False)]
    for form in FORMS:
        for role in ("pre", "post"):
            for kind, is_async in kinds:
                yield form, role, kind, is_async, None
        for trig in ("method", "amethod", "getter", "init", "setattr"):
            yield form, "inv", "method", trig == "amethod", trig


def strip_location(msg):
    import re

    lines = msg.split("\n")
    msg = "\n".join(lines[1:]) if lines and lines[0].startswith("File ") else msg
    # default object reprs carry the scratch module name and an address
    return re.sub(r"0x[0-9a-f]+", "0x", re.sub(r"vfprog_\w+", "vfprog", msg))


def run_cell(ctx, form, role, kind, is_async, trig):
    import icontract

    prog, ops = cell(form, role, kind, is_async, trigger=trig)
    name = "%s/%s/%s%s" % (form, role, trig or kind, "/async" if is_async else "")
    case = {"program": prog, "ops": ops, "truth": {}, "cell": [form, role, kind, is_async, trig]}
    res = H.run_case(prog, ops, {})
    model = REF.Model(prog)
    before = set(ctx.failures)
    if res.def_mismatch:
        ctx.fail("cell-definition|%s" % name, case, "definition failed: %r" % (res.def_mismatch,))
    else:
        S.judge_c16(ctx, case, {}, res, model)
        excs = [e for _, e in res.run.exceptions]
        if len(excs) != 3:
            ctx.fail("cell-count|%s" % name, case, D.describe(case, res, "expected three violations, got %r" % (excs,)))
        elif form == "default":
            for e in excs:
                if type(e) is not icontract.ViolationError or not isinstance(e, AssertionError):
                    ctx.fail("cell-default-type|%s" % name, case, "raised %r" % (e,))
        elif form in ("class", "baseclass"):
            # twin without error: same message up to the location line
            twin_prog, twin_ops = cell("default", role, kind, is_async, trigger=trig)
            twin = H.run_case(twin_prog, twin_ops, {})
            tex = [e for _, e in twin.run.exceptions]
            for e, t in zip(excs, tex):
                cls = vrt.ErrA if form == "class" else vrt.ErrB
                if type(e) is not cls or len(e.args) != 1 or strip_location(str(e.args[0])) != strip_location(str(t)):
                    ctx.fail("cell-class-message|%s" % name, case, "class form raised %r with args %r; the twin "
                                                                   "without error says %r" % (e, e.args, str(t)))
                    break
        elif form == "instance":
            if not (excs[0] is excs[1] is excs[2]):
                ctx.fail("cell-instance-identity|%s" % name, case, "three violations raised different objects")
        else:
            n_err = sum(1 for e in res.real_log if e[0] == "err")
            if n_err != 3 or len({id(e) for e in excs}) != 3:
                ctx.fail("cell-factory-count|%s" % name, case, "factory called %d times for three violations" % n_err)
    for b in list(ctx.failures):
        if b not in before and not b.startswith("cell-"):
            f = ctx.failures.pop(b)
            nb = "cell|%s|%s" % (name, b)
            f.bucket = nb
            ctx.failures[nb] = f
            ctx.failure_counts[nb] = ctx.failure_counts.pop(b, 1)
    ctx.case(["cell", form, role, kind, is_async, trig], True, sample=lambda: {
        "cell": name, "module": res.text[res.text.index("import abc") + 11:].strip()[:800], "ops": ops[-1:]})


def run_bad_factories(ctx):
    """Factory returning a non-exception; factory naming an unavailable value."""
    for role, kind, trig in (("pre", "function", None), ("post", "method", None), ("inv", "method", "method"),
                             ("pre", "static", None), ("post", "function", None)):
        for is_async in ((False, True) if role != "inv" else (False,)):
            for form in ("lambda", "def", "method"):
                # (a) non-exception return
                prog, ops = cell(form, role, kind, is_async, trigger=trig)
                hooks = {("errret", 1): lambda run: "not an exception"}
                loaded = RUN.Loaded(prog)
                try:
                    log, outs, run = core.in_fresh_thread(lambda: RUN.execute(loaded, ops[:1] if kind == "function" else ops[:2], {}, hooks=hooks))
                finally:
                    loaded.close()
                out = outs[-1]
                name = "%s/%s/%s%s" % (form, role, kind, "/async" if is_async else "")
                ctx.case(["nonexc", name], True, sample={"cell": "factory returns str: " + name})
                n_err = sum(1 for e in log if e[0] == "err")
                if not (out[0] == "exc" and out[1][0] == "typeerror") or n_err != 1:
                    ctx.fail("factory-nonexception|%s" % name, {"bad": "nonexc", "cell": [form, role, kind, is_async, trig]},
                             "a factory returning a non-exception must raise TypeError (factory called once); got %r, "
                             "factory calls %d" % (out[:2], n_err))
                # (b) unavailable name
                prog, ops = cell(form, role, kind, is_async, err_args=(["self", "nobody"] if role == "inv" else ["nobody"]),
                                 trigger=trig)
                res = H.run_case(prog, ops, {})
                out = res.real_outs[-1]
                ctx.case(["unavailable", name], True, sample={"cell": "factory names 'nobody': " + name})
                if not (out[0] == "exc" and out[1][0] == "typeerror" and "nobody" in out[1][1]) or any(
                        e[0] == "err" for e in res.real_log):
                    ctx.fail("factory-unavailable|%s" % name, {"bad": "unavail", "cell": [form, role, kind, is_async, trig]},
                             "a factory naming an unavailable value must raise a TypeError naming it and not be "
                             "called; got %r" % (out[:2],))


class _CallableInstance:
    def __call__(self):
        return Exception("x")


class _NotAnException:
    pass


def run_invalid_kinds(ctx):
    import icontract

    def f():
        return Exception("x")

    bad = {"int": 1, "str": "oops", "non-exception class": _NotAnException, "partial": functools.partial(f),
           "callable instance": _CallableInstance(), "builtin": len, "list": [ValueError],
           "zero": 0, "False": False, "empty str": "", "empty list": [], "empty tuple": (), "empty dict": {}}
    good = {"exception class": ValueError, "base exception class": KeyboardInterrupt, "instance": ValueError("x"),
            "function": f, "lambda": (lambda: ValueError("x")), "method": _Holder().make}
    for dname, deco in (("require", icontract.require), ("ensure", icontract.ensure), ("invariant", icontract.invariant)):
        cond = (lambda self: True) if dname == "invariant" else (lambda: True)
        for bname, b in bad.items():
            try:
                deco(cond, error=b)
                got = "accepted"
            except ValueError:
                got = "ValueError"
            except BaseException as e:  # noqa
                got = type(e).__name__
            ctx.case(["invalid", dname, bname], True, sample={"invalid error kind": "%s(error=<%s>)" % (dname, bname)})
            if got != "ValueError":
                ctx.fail("invalid-kind|%s|%s|%s" % (dname, bname, got), {"invalid": [dname, bname]},
                         "%s(..., error=<%s>) must raise ValueError when the decorator is created, got: %s" % (dname, bname, got))
        for gname, g in good.items():
            try:
                deco(cond, error=g)
                got = "accepted"
            except BaseException as e:  # noqa
                got = "%s: %s" % (type(e).__name__, e)
            ctx.case(["valid", dname, gname], True)
            if got != "accepted":
                ctx.fail("valid-kind-rejected|%s|%s" % (dname, gname), {"invalid": [dname, gname]},
                         "%s(..., error=<%s>) is a documented form but was rejected: %s" % (dname, gname, got))


def run_method_owners(ctx, only=None):
    """`error` given as a BOUND METHOD, for every kind of owner: an object nothing else refers to (written inline in the
    decorator, or deleted after decoration, with a garbage collection before the call), an instance of a __slots__ class
    (not weakly referenceable), a class (classmethod), a long-lived object. On a violation the method is called once and
    the exception it returns is raised as that very object. x role {require, ensure, invariant} x sync/async."""
    import gc
    import itertools
    import icontract
    from vf.progmodel.run import drive

    made = []

    class Owner:
        def __init__(self, tag):
            self.tag = tag

        def make(self):
            e = KeyError("made by %s" % self.tag)
            made.append(e)
            return e

    class Slotted:
        __slots__ = ("tag",)

        def __init__(self, tag):
            self.tag = tag

        def make(self):
            e = KeyError("made by %s" % self.tag)
            made.append(e)
            return e

    class WithClassmethod:
        @classmethod
        def make(cls):
            e = KeyError("made by the class")
            made.append(e)
            return e

    keeper = Owner("kept")
    for owner, role, is_async in itertools.product(("inline", "deleted", "slots", "slots-inline", "classmethod", "kept"),
                                                   ("require", "ensure", "invariant"), (False, True)):
        key = [owner, role, is_async]
        if only is not None and only != key:
            continue
        try:
            if owner == "inline":
                method = Owner("inline").make
            elif owner == "deleted":
                tmp = Owner("deleted")
                method = tmp.make
                del tmp
            elif owner == "slots":
                tmp = Slotted("slots")
                method = tmp.make
            elif owner == "slots-inline":
                method = Slotted("slots-inline").make
            elif owner == "classmethod":
                method = WithClassmethod.make
            else:
                method = keeper.make
            if role == "invariant":
                deco = icontract.invariant(lambda self: False, error=method)
            else:
                deco = getattr(icontract, role)(lambda: False, error=method)
            del method
            if role == "invariant":
                if is_async:
                    class K:
                        def __init__(self):
                            pass

                        async def m(self):
                            return 1
                else:
                    class K:
                        def __init__(self):
                            pass

                        def m(self):
                            return 1
                # the invariant is added after construction so that the method call is what trips over it
                obj = K()
                K = deco(K)
                obj.__class__ = K
                call = obj.m
            else:
                if is_async:
                    async def f():
                        return 1
                else:
                    def f():
                        return 1
                call = deco(f)
            gc.collect()
            del made[:]
            try:
                r = call()
                if is_async:
                    r = drive(r)
                got = "returned %r" % (r,)
            except KeyError as e:
                got = "raised the made object" if (len(made) == 1 and e is made[0]) else "KeyError, but made=%r" % (made,)
            except BaseException as e:  # noqa
                got = "%s: %s" % (type(e).__name__, str(e).splitlines()[0] if str(e) else "")
        except BaseException as e:  # noqa
            got = "set-up failed with %s: %s" % (type(e).__name__, e)
        ctx.case(["method-owner"] + key, owner != "kept", sample={"directed": "error=<bound method>, owner: %s, %s%s" % (
            owner, role, " (async)" if is_async else "")})
        ctx.count("directed:method-owners")
        if got != "raised the made object":
            ctx.fail("method-owner|%s|%s" % (owner, role), {"method_owner": key},
                     "%s(..., error=<bound method of a %s owner>)%s: the method must be called once on the violation and the "
                     "exception it returns raised; got: %s" % (role, owner, " on an async callable" if is_async else "", got))


def callable_exception_objects(ctx):
    """`error` given as an exception INSTANCE (or class) that happens to be callable - its class defines __call__, or it is a
    class whose meta-class does: an instance is raised as that same object and is never called; a class is instantiated with
    the message. x role x sync/async."""
    import itertools
    import icontract
    from vf.progmodel.run import drive

    calls = []

    class CallableError(Exception):
        def __call__(self, *a, **kw):
            calls.append(("called", a, kw))
            return KeyError("made by __call__")

    class CallableBase(BaseException):
        def __call__(self, x=None):
            calls.append(("called", x))
            return KeyError("made by __call__")

    for cls, role, is_async in itertools.product((CallableError, CallableBase), ("require", "ensure", "invariant"), (False, True)):
        inst = cls("the instance")
        del calls[:]
        try:
            if role == "invariant":
                if is_async:
                    class K:
                        def __init__(self):
                            pass

                        async def m(self, x=1):
                            return x
                else:
                    class K:
                        def __init__(self):
                            pass

                        def m(self, x=1):
                            return x
                obj = K()
                K = icontract.invariant(lambda self: False, error=inst)(K)
                obj.__class__ = K
                call = obj.m
            else:
                if is_async:
                    async def f(x=1):
                        return x
                else:
                    def f(x=1):
                        return x
                call = getattr(icontract, role)(lambda: False, error=inst)(f)
            try:
                r = call()
                if is_async:
                    r = drive(r)
                got = "returned %r" % (r,)
            except BaseException as e:  # noqa
                got = "raised the instance" if e is inst else "raised %s: %s" % (type(e).__name__, e)
        except BaseException as e:  # noqa
            got = "set-up failed with %s: %s" % (type(e).__name__, e)
        ctx.case(["callable-exception", cls.__name__, role, is_async], True,
                 sample={"directed": "error=<instance of an exception class with __call__> (%s), %s%s" % (cls.__name__, role, " (async)" if is_async else "")})
        ctx.count("directed:callable-exception-objects")
        if got != "raised the instance" or calls:
            ctx.fail("callable-exception|%s|%s" % (cls.__name__, role), {"directed": "callable-exception"},
                     "%s(..., error=<%s instance, whose class defines __call__>)%s: that very object must be raised and not called; "
                     "got: %s, __call__ invocations: %r" % (role, cls.__name__, " on an async callable" if is_async else "", got, calls))


def inherited_error_identity(ctx):
    """The `error` of a contract declared on a BASE member, violated through an overriding member of a DBC sub-class (depth 2
    and 3, the override with and without a contract of its own): an exception instance is raised as that very object, a
    bound-method factory is called once on its original owner, a class is instantiated. x role {require, ensure} x sync/async."""
    import itertools
    import icontract
    from vf.progmodel.run import drive

    for form, role, depth, own, is_async in itertools.product(("instance", "method", "class"), ("require", "ensure"), (2, 3),
                                                              (False, True), (False, True)):
        if own and role == "require":
            continue  # with a falsy own group the error of the LAST group tried surfaces (C16), not the inherited one
        made = []

        class Owner:
            def __init__(self):
                self.calls = 0

            def make(self):
                self.calls += 1
                e = KeyError("made by the owner")
                made.append(e)
                return e

        owner = Owner()
        inst = KeyError("the instance")
        error = {"instance": inst, "method": owner.make, "class": KeyError}[form]

        def bad(**kw):
            return False

        cond = (lambda x: False) if role == "require" else (lambda result: False)
        A = "async " if is_async else ""
        ns = {"icontract": icontract, "error": error}
        exec("def cond(%s):\n    return False\ndef own_cond(result):\n    return True" % ("x" if role == "require" else "result"), ns)
        src = ["class K0(icontract.DBC):",
               "    @icontract.%s(cond, error=error)" % role,
               "    %sdef m(self, x):" % A, "        return x"]
        for lvl in range(1, depth):
            src += ["class K%d(K%d):" % (lvl, lvl - 1)]
            if own and lvl == depth - 1:
                src += ["    @icontract.ensure(own_cond)"]
            src += ["    %sdef m(self, x):" % A, "        return x"]
        label = "%s(error=<%s>) on the base, violated through the override at depth %d%s%s" % (
            role, form, depth, " (override with an own contract)" if own else "", ", async" if is_async else "")
        try:
            exec("\n".join(src), ns)
            obj = ns["K%d" % (depth - 1)]()
            try:
                r = obj.m(1)
                if is_async:
                    r = drive(r)
                got = "returned"
            except KeyError as e:
                if form == "instance":
                    got = "ok" if e is inst else "raised a different KeyError object: %r" % (e,)
                elif form == "method":
                    got = "ok" if (owner.calls == 1 and len(made) == 1 and e is made[0]) else \
                        "owner called %d times, made %d, raised made object: %s" % (owner.calls, len(made), bool(made) and e is made[0])
                else:
                    got = "ok" if type(e) is KeyError else "raised %r" % (e,)
            except BaseException as e:  # noqa
                got = "%s: %s" % (type(e).__name__, str(e)[:80])
        except BaseException as e:  # noqa
            got = "definition failed with %s: %s" % (type(e).__name__, e)
        ctx.case(["inherited-error", form, role, depth, own, is_async], True, sample={"directed": label})
        ctx.count("directed:inherited-error-identity")
        if got != "ok":
            ctx.fail("inherited-error|%s|%s" % (form, role), {"directed": "inherited-error"}, "%s: %s" % (label, got))


class _Holder:
    def make(self):
        return ValueError("x")


DECO_KW = dict(n_pre=(0, 3), n_post=(0, 3), n_snap=(0, 2), n_wraps=(0, 1),
               err_forms=("lambda", "def", "method", "lambda", "def", "instance", "class", "default"))
HIER_KW = dict(n_classes=(1, 3), dag=False, with_invs=True, with_init=True, with_new=True,
               inv_err_forms=("default", "lambda", "def", "method", "instance", "class"))


@st.composite
def strategy(draw):
    case = draw(st.one_of(D.st_function_case(DECO_KW), D.st_class_case(DECO_KW, HIER_KW)))
    # widen what factories name: _ARGS/_KWARGS and (rarely) a name nobody supplies
    p = case["program"]
    fs = list(p.get("funcs", [])) + [m for c in p.get("classes", []) for m in c.get("members", [])]
    for f in fs:
        for d in f.get("decos", []):
            e = d.get("err")
            if e and e["form"] in ("lambda", "def", "method"):
                for extra in ("_ARGS", "_KWARGS"):
                    if draw(st.integers(0, 3)) == 0 and extra not in e["args"]:
                        e["args"] = e["args"] + [extra]
                if draw(st.integers(0, 11)) == 0:
                    e["args"] = e["args"] + ["nobody"]
                # some parameters of the factory carry a default of their own: the call's value must still arrive
                e["dargs"] = [a for a in e["args"] if a not in ("nobody", "OLD") and draw(st.integers(0, 2)) == 0]
            if d["t"] in ("require", "ensure") and draw(st.integers(0, 3)) == 0:
                d["dargs"] = [a for a in d.get("args", []) if a != "OLD" and draw(st.booleans())]
    return case


def nontrivial(case, truth, res, mask, n):
    p = case["program"]
    fs = list(p.get("funcs", [])) + [m for c in p.get("classes", []) for m in c.get("members", [])]
    for f in fs:
        for d in f.get("decos", []):
            if d["t"] in ("require", "ensure") and (d.get("err") or {}).get("form") in ("lambda", "def", "method"):
                if any(not S.is_truthy(code_) for code_ in (truth.get(d["cid"]) or ["T"])):
                    return True
    return False


def run(ctx, tier, seed, shard, nshards):
    if shard == 0:
        for form, role, kind, is_async, trig in matrix():
            run_cell(ctx, form, role, kind, is_async, trig)
        run_bad_factories(ctx)
        run_invalid_kinds(ctx)
        run_method_owners(ctx)
        callable_exception_objects(ctx)
        inherited_error_identity(ctx)
        ctx.exhaustive = True
        ctx.extra["exhaustive_scope"] = "the form x role x kind x sync/async matrix and the invalid-kind table"
    n = 200 if tier == "quick" else 1500
    D.explore(ctx, seed, n, strategy(), S.judge_c16, limit_all=6 if tier == "quick" else 8, n_sample=16,
              nontrivial=nontrivial)


def replay(ctx, case):
    if "cell" in case and "program" not in case:
        form, role, kind, is_async, trig = case["cell"]
        if case.get("bad"):
            return run_bad_factories(ctx)
        return run_cell(ctx, form, role, kind, is_async, trig)
    if "cell" in case:
        form, role, kind, is_async, trig = case["cell"]
        return run_cell(ctx, form, role, kind, is_async, trig)
    if "invalid" in case:
        return run_invalid_kinds(ctx)
    if case.get("directed") == "inherited-error":
        return inherited_error_identity(ctx)
    if case.get("directed") == "callable-exception":
        return callable_exception_objects(ctx)
    if "method_owner" in case:
        return run_method_owners(ctx, only=case["method_owner"])
    D.replay_case(ctx, case, S.judge_c16)
