"""C06 - every value shown in a violation message is the value Python computes. DESIGN 4/C06, 3.3."""
import ast
import inspect
import re
import types

from hypothesis import given, strategies as st

from vf import core
from vf.exprgen import grammar as GR
from vf.exprgen import oracle as OR
from vf.exprgen import render as RD
from vf.exprgen import msgparse as MP

ID = "C06"
LEVEL = "exploration"
SHARDS = {"quick": 1, "thorough": 16}
FUZZ = {"thorough": (16, 5000)}  # atheris campaigns x executions each (vf/fuzz.py)
N_QUICK, N_THOROUGH = 1200, 8000
RULE = ("case = (condition generated from a typed expression grammar - constants, names from arguments / closure / "
        "module globals / builtins incl. shadowing, attributes, subscripts and slices (also tuple subscripts), calls "
        "with positional, keyword and star arguments, unary/binary/boolean operators, comparison chains, conditional "
        "and assignment expressions, f-strings, displays, list/set/dict comprehensions and generator expressions "
        "under all/any/sum, nesting depth<=4 - written as an in-decorator lambda on require / ensure / invariant, def "
        "or async def; drawn argument values; negated when truthy so that every non-raising draw is a violation). "
        "Oracle A: CPython evaluates an instrumented copy of the very same expression and records, for every "
        "sub-expression of the lambda's own scope, whether it was evaluated and to which object. Soundness: every "
        "'<key> was <text>' line names such a sub-expression (matched as AST) or a call argument and <text> is "
        "a_repr of the recorded value; a failing all() lists the first falsifying assignment (computed by CPython). "
        "Completeness (when no name of the condition is bound to None): every representable call argument and every "
        "evaluated name/attribute/call/subscript/comprehension is listed. non-trivial = >=3 displayed "
        "sub-expressions and one of {boolean operator inside a call/subscript, comprehension, f-string, all/any, slice, "
        "star argument, closure or global name}; distinct = hash(condition text, role, inputs).")
ASSUMPTIONS = ["helper calls never return classes/functions/modules; no lambda/await/yield/starred display in conditions",
               "f-string replacement fields contain argument names only (whether their interior must be listed is not "
               "settled by the statement)",
               "a key spelled like both a call argument the condition does not take and a global/closure name the "
               "condition uses may show either value; sub-expressions computed from it must show Python's value"]
KNOWN = {}


ADDR = re.compile(r"0x[0-9a-f]+")


def representable(v):
    return not (inspect.isclass(v) or inspect.isfunction(v) or inspect.ismethod(v) or inspect.ismodule(v)
                or inspect.isbuiltin(v))


AREPR = None  # C20 installs the contract's own a_repr here


def arepr(v):
    import icontract._globals

    return (AREPR or icontract._globals.aRepr).repr(v)


def bindings(role, lam_params, inputs):
    if role == "invariant":
        return {"self": types.SimpleNamespace(**inputs)}
    b = {}
    for p in lam_params:
        b[p] = inputs["x"] if p == "result" else inputs[p]
    return b


def prepare(case):
    """-> None if the condition raises under CPython, else the final condition text etc."""
    inputs = GR.build_inputs(case["inputs"])
    ctext, lam_params = RD.adapt(case["text"], case["params"], case["role"])
    b = bindings(case["role"], lam_params, inputs)
    for p_ in RD.with_condition_defaults(ctext, [], case["role"]):
        # a parameter of the condition that takes its own default: Python evaluates the condition with that value
        name, default = p_.split("=")
        b[name] = ast.literal_eval(default)
    st_, val = OR.evaluate(ctext, b, list(b))
    if st_ == "raises":
        return None
    try:
        truthy = bool(val)
    except Exception:  # noqa
        return None
    if truthy:
        ctext = GR.canon("not (%s)" % ctext)
    return inputs, ctext, lam_params, b


def check_case(ctx, case):
    import icontract

    prep = prepare(case)
    if prep is None:
        ctx.count("skipped:condition_raises_under_cpython")
        return
    inputs, ctext, lam_params, b = prep
    role, is_async = case["role"], case["async"]
    text, _, _, _ = RD.module_text(ctext, lam_params, role=role, is_async=is_async)
    value, nodes, rec = OR.record(ctext, b, list(b))
    with RD.Module(text) as mod:
        RD.shadow_globals(mod, case.get("shadow"))
        exc = RD.call(mod, role, is_async, inputs)
    jcase = dict(case)
    jcase["final_text"] = ctext
    if type(exc) is not icontract.ViolationError:
        ctx.count("skipped:no_violation_message(%s)" % type(exc).__name__)
        return  # C07's business
    try:
        parsed = MP.parse(str(exc), "the-desc", ctext)
    except MP.ParseError as e:
        ctx.fail("unparseable-message", jcase, "message does not have the documented shape: %s\n%s" % (e, exc))
        return
    judge(ctx, jcase, ctext, lam_params, b, inputs, nodes, rec, parsed, str(exc))


def judge(ctx, case, ctext, lam_params, b, inputs, nodes, rec, parsed, msg):
    role = case["role"]
    # call arguments as the library resolves them
    if role == "invariant":
        call_args = {"self": None}
    else:
        call_args = {k: inputs[k] for k in list(GR.ARGS) + ["Y"]}
        if role == "ensure":
            call_args["result"] = inputs["x"]
    by_dump = {}
    for i, n in nodes.items():
        by_dump.setdefault(OR.dump(n), []).append(i)
    free_names = {n.id for n in ast.walk(ast.parse(ctext, mode="eval")) if isinstance(n, ast.Name)}
    inside_comps = set()
    for comp in ast.walk(ast.parse(ctext, mode="eval")):
        if isinstance(comp, (ast.ListComp, ast.SetComp, ast.DictComp, ast.GeneratorExp)):
            for sub in ast.walk(comp):
                if isinstance(sub, ast.expr) and sub is not comp:
                    try:
                        inside_comps.add(OR.dump(sub))
                    except Exception:  # noqa
                        pass
    feats = set(case.get("features", []))
    listed = set()
    shape = "%s%s" % (role, "/async" if case["async"] else "")

    def fail(clause, detail, key=None):
        kind = ""
        if key is not None:
            try:
                kn = ast.parse("(" + key + ")", mode="eval").body
                kind = type(kn).__name__
            except SyntaxError:
                kind = "?"
        ctx.fail("%s|%s|%s" % (clause, kind, sorted(feats & {"boolop", "boolop-in-call", "star-arg", "f-string", "named-expr",
                                                             "comprehension", "all-any"})), case,
                 "%s\ncondition: lambda %s: %s\nrole: %s\ninputs: %r\nmessage:\n%s" % (
                     detail, ", ".join(RD.with_condition_defaults(ctext, lam_params, role)), ctext, shape, case["inputs"], msg))

    for key, val in parsed["entries"]:
        try:
            kd = OR.dump(key)
        except SyntaxError:
            fail("soundness:key-not-an-expression", "key %r is not an expression" % key)
            return
        listed.add(kd)
        cands = []
        evaluated = [i for i in by_dump.get(kd, []) if i in rec.values]
        cands += [rec.values[i] for i in evaluated]
        # the target of an assignment expression is listed under its name with the assigned value
        for i, n in nodes.items():
            if isinstance(n, ast.NamedExpr) and n.target.id == key and i in rec.values:
                cands.append(rec.values[i])
        is_arg = key in call_args
        collision = is_arg and key not in lam_params and key in free_names
        if is_arg and role != "invariant":
            cands.append(call_args[key])
        if isinstance(val, tuple):
            knode = ast.parse("(" + key + ")", mode="eval").body
            if not (isinstance(knode, ast.Call) and getattr(knode.func, "id", None) == "all"):
                # the falsifying-example object of an inner all(...) flowed through a call or a boolean operator
                # and is shown for the enclosing expression; accepted when that expression is falsy for Python
                st_, v = OR.evaluate(key, b, list(b))
                if st_ == "ok" and not v and "all(" in key:
                    ctx.count("all_example_shown_for_enclosing_expression")
                    continue
            check_all_entry(ctx, fail, key, val[1], b, ctext)
            continue
        if key == "self" and role == "invariant":
            continue
        if not cands:
            if kd in by_dump and kd not in inside_comps:
                fail("soundness:value-of-unevaluated", "%r is shown as %s but Python never evaluated it" % (key, val), key)
                return
            # a sub-expression inside a comprehension that does not depend on the targets: value under outer bindings
            st_, v = OR.evaluate(key, b, list(b))
            if kd in inside_comps and kd not in by_dump:
                occ, seen_inside, loop_vars = OR.inside_values(ctext, kd, b, list(b))
                if occ and all(occ):
                    # every occurrence uses a loop variable in scope there (which may hide an outer variable of the same
                    # name): what Python computed for it during the iteration are the only values it ever had
                    texts = [arepr(x) for x in seen_inside]
                    if val in texts or ADDR.sub("0x", val) in [ADDR.sub("0x", t) for t in texts if ADDR.search(t)]:
                        ctx.count("judged(inside a comprehension, depends on its loop variables)")
                        continue
                    hidden = loop_vars & set(b)
                    if hidden and st_ == "ok" and val == arepr(v):
                        # the shown value is what the expression gives with the OUTER variable that the loop variable hides
                        ctx.count("judged(inside a comprehension, depends on its loop variables)")
                        fail("soundness:wrong-value", "%r (inside a comprehension) uses the loop variable(s) %s, which hide outer "
                             "variables of the same name; it is shown as %s, the value computed from the hidden outer variable%s" % (
                                 key, sorted(hidden), val, ("; during Python's evaluation it only had the values %s" %
                                                            " / ".join(sorted(set(texts))[:6])) if texts else
                                 "; Python never evaluated it"), key)
                        return
                    if texts and st_ != "ok":
                        # reached by Python, not computable without the loop variables, and never this value
                        ctx.count("judged(inside a comprehension, depends on its loop variables)")
                        fail("soundness:wrong-value", "%r (inside a comprehension, depending on its loop variables) is shown as "
                             "%s; during Python's evaluation it only had the values %s" % (key, val, " / ".join(sorted(set(texts))[:6])), key)
                        return
                    # otherwise as before: a value that does not need the loop variables (a branch not taken, an overridden
                    # key) is judged under the outer bindings below, an uncomputable one is not judged
            if st_ != "ok":
                walrus_in_comp = any(
                    isinstance(sub, ast.NamedExpr) and sub.target.id == key
                    for comp in ast.walk(ast.parse(ctext, mode="eval"))
                    if isinstance(comp, (ast.ListComp, ast.SetComp, ast.DictComp, ast.GeneratorExp))
                    for sub in ast.walk(comp))
                if kd in inside_comps or walrus_in_comp:
                    # lexically inside a comprehension and not computable from the outer bindings (it uses a loop
                    # variable, or it is the target of an assignment expression made there): the oracle does not
                    # look into comprehension scopes, so the shown value is not judged
                    ctx.count("not_judged(inside a comprehension, depends on its loop variables)")
                    continue
                fail("soundness:unknown-key", "key %r is neither a sub-expression of the condition nor an argument" % key, key)
                return
            cands.append(v)
        texts = [arepr(v) for v in cands]
        # one-shot iterators (zip, enumerate) have address-bearing reprs and the re-computation builds a new object
        if val not in texts and ADDR.sub("0x", val) not in [ADDR.sub("0x", t) for t in texts if ADDR.search(t)]:
            if collision:
                continue
            fail("soundness:wrong-value", "%r is shown as %s, Python computed %s" % (key, val, " / ".join(sorted(set(texts)))), key)
            return
    # completeness
    name_vals = [rec.values[i] for i, n in nodes.items() if isinstance(n, ast.Name) and i in rec.values]
    if any(v is None for v in name_vals) or any(v is None for k, v in b.items()):
        ctx.count("completeness_not_claimed(None-bound name)")
    else:
        for k, v in call_args.items():
            if role == "invariant":
                continue
            if representable(v) and OR.dump(k) not in listed:
                fail("completeness:argument-missing", "call argument %r (= %s) is not listed" % (k, arepr(v)), k)
                return
        for i, n in nodes.items():
            if i not in rec.values or not isinstance(n, OR.LISTED_TYPES):
                continue
            v = rec.values[i]
            if not representable(v):
                continue
            if isinstance(n, ast.Name) and n.id not in free_bound(b, n.id):
                continue
            if OR.dump(n) not in listed:
                fail("completeness:subexpression-missing", "Python evaluated %r to %s but the message does not list it" % (
                    ast.unparse(n), arepr(v)), ast.unparse(n))
                return
    n_listed = len(parsed["entries"])
    nt = n_listed >= 3 and bool(feats & {"boolop-in-call", "comprehension", "f-string", "all-any", "slice", "star-arg",
                                         "closure", "global", "boolop"})
    for f in feats:
        ctx.count("feat:" + f)
    ctx.count("role:" + shape)
    ctx.case([ctext, role, case["async"], case["inputs"]], nt, sample=lambda: {
        "condition": "lambda %s: %s" % (", ".join(lam_params), ctext), "role": shape, "message": msg.split("\n", 1)[1][:600]})


def free_bound(b, name):
    """Names that are representable variables (not builtins): parameters, closure and global names."""
    return set(b) | set(GR.CLOSURE) | set(GR.GLOBALS)


def check_all_entry(ctx, fail, key, shown, b, ctext):
    """`all(<elt> for <clauses>) was False, e.g., with` -> the first falsifying assignment, computed by CPython."""
    try:
        node = ast.parse("(" + key + ")", mode="eval").body
    except SyntaxError:
        fail("soundness:key-not-an-expression", "key %r" % key)
        return
    if not (isinstance(node, ast.Call) and getattr(node.func, "id", None) == "all" and node.args and
            isinstance(node.args[0], ast.GeneratorExp)):
        fail("soundness:all-entry-on-non-all", "an 'e.g., with' entry for %r" % key, key)
        return
    gen = node.args[0]
    targets = []
    for g in gen.generators:
        # in source order (a nested target like `(a, b), c` is walked breadth-first by ast.walk)
        for n in sorted((n for n in ast.walk(g.target) if isinstance(n, ast.Name)), key=lambda n: (n.lineno, n.col_offset)):
            if n.id not in targets:
                targets.append(n.id)
    tup = "(%s,)" % ", ".join(targets)
    clauses = " ".join(
        "for %s in %s%s" % (ast.unparse(g.target), ast.unparse(g.iter), "".join(" if " + ast.unparse(c) for c in g.ifs))
        for g in gen.generators)
    probe = "next((%s %s if not (%s)), None)" % (tup, clauses, ast.unparse(gen.elt))
    st_, first = OR.evaluate(probe, b, list(b))
    if st_ != "ok" or first is None:
        fail("soundness:all-example", "could not compute the first falsifying assignment of %r (%r)" % (key, first), key)
        return
    import inspect as _inspect

    def is_listed(v):  # classes, functions, methods, modules and builtins are left out of messages (C20)
        return not (_inspect.isclass(v) or _inspect.isfunction(v) or _inspect.ismethod(v) or _inspect.ismodule(v) or _inspect.isbuiltin(v))

    exp = [(t, arepr(v)) for t, v in zip(targets, first) if is_listed(v)]
    if list(shown) != exp:
        fail("soundness:all-example", "%r: reported example %r, the first falsifying assignment is %r" % (key, shown, exp), key)


@st.composite
def st_case(draw, tier):
    cond = draw(GR.st_condition(depth=3 if tier == "quick" else 4))
    role = draw(st.sampled_from(["require", "require", "require", "ensure", "invariant"]))
    # every second case: module globals named like the parameters, bound to other values (the parameter must win)
    shadow = draw(GR.st_inputs()) if draw(st.booleans()) else None
    return {"text": cond["text"], "params": cond["params"], "features": cond["features"], "role": role, "shadow": shadow,
            "async": role != "invariant" and draw(st.integers(0, 3)) == 0, "inputs": draw(GR.st_inputs())}


DIRECTED = [
    # (text, params, overrides of inputs) - shapes behind earlier findings, kept as regression probes
    ("ident(x or n) == 99", ["x", "n"], {"x": 0, "n": 3}),
    ("ident(x or n or 5) == 99", ["x", "n"], {"x": 0, "n": 0}),
    ("ident(Y) < 0", [], {}),
    ("ident(id) is not None", ["id"], {"id": None}),
    ("add(*xs) > 1000", ["xs"], {"xs": [1, 2]}),
    ("kw(b=x, a=n) > 1000", ["x", "n"], {}),
    ("xs[1:3:2] == ys", ["xs", "ys"], {"xs": [1, 2, 3, 4], "ys": [9]}),
    ("all(y > 2 for y in xs)", ["xs"], {"xs": [5, 1, 0]}),
    ("all(y > z for y in xs for z in ys if z > 0)", ["xs", "ys"], {"xs": [5, 1], "ys": [0, 3, 4]}),
    ("m[0, 1] > 1000", ["m"], {}),
    ("(w1 := x + 1) > 1000 and w1 > 0", ["x"], {}),
    ("f'{x!r}{s:>4}' == 'zz'", ["x", "s"], {}),
    ("ident(G) is not None", ["G"], {"G": None}),
    ("all(y > 0 for y in xs if y != -1 if y % 2 == 0)", ["xs"], {"xs": [-3, 4, -2]}),
    ("all(y > 0 for y in xs if y % 2 == 0 if y != 4 if y < 100)", ["xs"], {"xs": [-3, 4, 6, -2]}),
    ("all(y + z > 0 for y in xs if y != -1 if y % 2 == 0 for z in ys if z < 5 if z != 1)", ["xs", "ys"], {"xs": [-3, 4, -2], "ys": [7, 1, 0]}),
    ("all(y > 1 for y in xs if y != 5 if 10 // (y - 5) < 100)", ["xs"], {"xs": [7, 5, 0]}),
    ("all(len(v) < 3 for v in [xs, ys])", ["xs", "ys"], {"xs": list(range(40)), "ys": [1]}),
    ("all(v != s for v in [CS, s])", ["s"], {"s": "abcxyz" * 12}),
    # an unknown value handed to a tolerant callee by keyword: the callee is not run with a stand-in
    ("tag(v=id) > 1000", ["id"], {"id": None}), ("tag(v=id, w=x) + tag(w=n, v=G) > 1000", ["id", "x", "n", "G"], {"id": None, "G": None}),
    ("sum(tag(v=y) for y in xs) > 1000", ["xs"], {"xs": [1, 2]}), ("[tag(v=y, w=x) for y in xs] == []", ["xs", "x"], {"xs": [3]}),
    ("all(y for y in xs) and len(xs) > 1000", ["xs"], {"xs": [1, 0, 2]}),
    ("all(c.strip() for c in [s, CS]) and x > 0", ["s", "x"], {"s": "  "}),
    ("not all(y - 5 for y in xs) and len(xs) > 1000", ["xs"], {"xs": [1, 5]}),
    # the reported example goes through the same (abbreviating) repr as every other value
    ("all(len(v) < 3 for v in [ys, xs])", ["xs", "ys"], {"xs": list(range(70)), "ys": [1]}),
    ("all(v != s for v in [CS, s])", ["s"], {"s": "abcxyz" * 60}),
    ("all(len(v) < k for v, k in [(ys, 3), (xs, 3)])", ["xs", "ys"], {"xs": list(range(70)), "ys": [1]}),
    ("{'a': x, **d0}['a'] + {**d0, **{'a': n}}['a'] > 1000", ["x", "n"], {"x": 7, "n": 9}),
    ("sorted({**{'k': x}, 'k': n, **{'j': 1}}.items()) == [('j', 2)]", ["x", "n"], {"x": 7, "n": 9}),
    ("(n := len(xs)) > 0 and sum(xs[:n]) > 1000", ["n", "xs"], {"xs": [1, 2, 3], "n": 1}),
    ("(w1 := x) > 0 and (w1 := n) > 0 and abs(w1) > 1000", ["n", "x"], {"x": 5, "n": 7}),
    ("ident((x := x + 1)) > 1000 or ident(x) > 1000", ["x"], {"x": 5}),
    ("ident(+(x > 0)) > 1000 or ident(-(n > 0)) > 1000 or ident(~(x == 0)) > 1000", ["n", "x"], {"x": 5, "n": 7}),
    ("f'{s!a}' == 'zz'", ["s"], {"s": "Zo\u00eb"}),
    ("f'{s!a:>9}|{s!r:>9}|{s!s:>9}' == 'zz'", ["s"], {"s": "\u03bbx"}),
    ("f'{n!a}{s}' == s", ["n", "s"], {"s": "\u00e9"}),
    ("all(y < z for i, (y, z) in enumerate(zip(xs, ys)))", ["xs", "ys"], {"xs": [1, 9, 2], "ys": [4, 5, 6]}),
    ("all(abs(n) < 4 for i, (n, z) in enumerate(zip(xs, ys)))", ["xs", "ys"], {"xs": [1, 9, 2], "ys": [4, 5, 6], "n": -7}),
    ("all(len(tl) < 2 for h, *tl in [xs + [0], ys + [1, 2]])", ["xs", "ys"], {"xs": [1], "ys": [4, 5]}),
    ("all(y + z < c for (y, z), c in zip(zip(xs, ys), xs))", ["xs", "ys"], {"xs": [1, 9, 2], "ys": [4, 5, 6]}),
    # the iterable of a later `for` clause is computed from the loop variable of an earlier clause, which hides an
    # argument of the same name: no value computed from the hidden argument may appear
    ("all(c > 0 for xs in [[1, 0], ys] for c in xs[1:])", ["xs", "ys"], {"xs": [1, 5, 2], "ys": [4]}),
    ("[c for xs in [[1, 0], ys] for c in xs[1:]] == []", ["xs", "ys"], {"xs": [1, 5, 2], "ys": [4]}),
    ("sum(c for xs in [ys, [7]] for c in sorted(xs)) > 1000", ["xs", "ys"], {"xs": [1, 5, 2], "ys": [4]}),
    ("{c for xs in [ys] for c in xs[:2]} == {0}", ["xs", "ys"], {"xs": [1, 5, 2], "ys": [4, 6, 8]}),
    ("{str(c): c for s in ['pq', 'r'] for c in s.upper()} == {}", ["s"], {"s": "ab"}),
    ("all(v < 3 for d in [{'a': 5}] for v in d.values())", ["d"], {"d": {"a": 1}}),
    ("any(c > 1000 for x in xs for c in range(x))", ["x", "xs"], {"x": 2, "xs": [1, 3]}),
]


def run(ctx, tier, seed, shard, nshards):
    n = N_QUICK if tier == "quick" else N_THOROUGH

    @given(st_case(tier))
    def test(case):
        check_case(ctx, case)

    core.run_hypothesis(test, seed, n)
    if shard == 0:
        directed(ctx)
        private_attribute_cases(ctx)


def directed(ctx, only=None):
    base = {"x": 2, "n": 3, "s": "ab", "xs": [1, 5, 2], "ys": [4], "ss": [1, 2], "d": {"a": 1}, "t": [3, 4],
            "o": {"n": 1, "items": [2], "child": None}, "m": [[1, 2], [3, 4]], "id": 3, "Y": -1000, "G": 5}
    for i, (text, params, over) in enumerate(DIRECTED):
        if only is not None and only != i:
            continue
        inputs = dict(base)
        inputs.update(over)
        for role in ("require", "ensure", "invariant"):
            check_case(ctx, {"text": text, "params": params, "features": ["directed"], "role": role, "async": False,
                             "inputs": inputs, "directed": i})


def private_attribute_cases(ctx):
    """Values of private attributes (mangled by the compiler) in the message: the cells of C07's scope family that check
    the value lines."""
    from vf.props import c07

    for name in ("pay/over-limit", "two-classes", "suffix", "comprehension", "sub-class-instance", "base-contract-on-sub-class"):
        c07.scope_cases(ctx, only="private attribute/%s" % name)


def replay(ctx, case):
    if case.get("scope_case"):
        from vf.props import c07

        before = ctx.evaluations
        c07.scope_cases(ctx, only=case["scope_case"])
        ctx.evaluations = before + 1
        return
    if "directed_index" in case:
        return directed(ctx, only=case["directed_index"])
    check_case(ctx, case)
