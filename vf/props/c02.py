"""C02 - see DESIGN.md section 4/C02. Built on progmodel; oracle projection = _single.judge_c02."""
from hypothesis import strategies as st

from vf.progmodel import driver as D
from vf.props import _single as S

ID = "C02"
LEVEL = "exploration"
SHARDS = {"quick": 1, "thorough": 16}
DECO_KW = dict(n_pre=(0, 2), n_post=(0, 4), n_snap=(0, 2), n_wraps=(0, 1),
               err_forms=("default", "default", "class", "baseclass", "instance", "lambda", "def", "method"))
HIER_KW = dict(n_classes=(1, 4), dag=True, multi_root=True, with_invs=True, with_init=True, with_new=True)
JUDGE = S.judge_c02
KNOWN = {}


@st.composite
def strategy(draw):
    case = draw(st.one_of(D.st_function_case(DECO_KW), D.st_class_case(DECO_KW, HIER_KW), D.st_class_case(DECO_KW, HIER_KW)))
    # on async callables a postcondition may deliver its verdict as any awaitable (C02: "every effective
    # postcondition is evaluated against the returned value")
    p = case["program"]
    for f in list(p.get("funcs", [])) + [m for c in p.get("classes", []) for m in c.get("members", [])]:
        if f.get("async"):
            for d in f.get("decos", []):
                if d["t"] == "ensure" and not d.get("made") and draw(st.integers(0, 2)) == 0:
                    d["flavor"] = draw(st.sampled_from(["corofunc", "ret_coro", "awaitable", "future"]))
                    d["lam"] = False
    return case


def exclude(ctx, case, model):
    if D.d23_shape(case["program"]):
        return "D23"  # open finding recorded under C14 (library-made __new__ shadows another base's __new__)
    return None


def run(ctx, tier, seed, shard, nshards):
    n = N_QUICK if tier == "quick" else N_THOROUGH
    D.explore(ctx, seed, n, strategy(), JUDGE, limit_all=6 if tier == "quick" else 9, n_sample=24,
              nontrivial=nontrivial, exclude=exclude)
    if shard == 0:
        directed(ctx)
        # two bases x {with precondition, without, absent} x sub-class {overrides, overrides with own precondition,
        # inherits} x member kind, a postcondition at every level: every base's postcondition must gate the return
        from vf.props import c04

        for case in c04.multi_base_matrix():
            D.run_one(ctx, case, JUDGE, exclude=exclude, nontrivial=nontrivial)
        ctx.count("multi_base_matrix_cells", 7 * 64)


def replay(ctx, case):
    if case.get("directed"):
        return directed(ctx, only=case["directed"])
    D.replay_case(ctx, case, JUDGE)

N_QUICK, N_THOROUGH = 400, 2000
RULE = ("case = (generated program as in C01 with stacks of 0..4 own/inherited postconditions and a body outcome from "
        "{fresh object, None, 0, '', False, [], list, the argument itself, NotImplemented, Ellipsis} or a raise of {Exception, KeyError, custom, "
        "KeyboardInterrupt, SystemExit, GeneratorExit, custom BaseException, StopIteration(sync)}; all truth "
        "assignments). Oracle: postcondition events (ids, order, result/argument/OLD identities) and the caller's "
        "value/exception identity equal the reference. non-trivial = falsy-but-valid result, BaseException body, or "
        ">=2 postconditions with a falsy one.")
ASSUMPTIONS = ["StopIteration is not raised from async bodies (PEP 479 rewrites it)",
               "calls rejected by their precondition are C01's business and skipped here"]


def nontrivial(case, truth, res, mask, n):
    p = case["program"]
    fs = list(p.get("funcs", [])) + [f for c in p.get("classes", []) for f in c.get("members", [])]
    for f in fs:
        b = f.get("body") or {}
        if b.get("ret") in ("None", "0", "''", "False", "emptylist", "NotImplemented", "Ellipsis"):
            return True
        if b.get("raise") in ("KeyboardInterrupt", "SystemExit", "GeneratorExit", "ProgBaseError"):
            return True
        posts = [d for d in f.get("decos", []) if d["t"] == "ensure"]
        if len(posts) >= 2 and any(any(not S.is_truthy(code_) for code_ in (truth.get(d["cid"]) or ["T"])) for d in posts):
            return True
    return False


def wrapped_colours(ctx):
    """An `async def` adapter that carries `functools.wraps(<a sync function>)` (run-in-executor / asyncify style): what the
    caller gets is the awaited value, and that is what every postcondition - own or inherited - is evaluated against.
    Enumerated: plain function / DBC override x result object x postcondition holds or not."""
    import functools
    import inspect
    import icontract
    from vf.progmodel.run import drive

    for where in ("function", "override"):
        for value in (5, None, [], "x"):
            for holds in (True, False):
                seen = []

                def post(result):
                    seen.append(result)
                    return holds

                def sync_impl(*a):
                    return value

                if where == "function":
                    @functools.wraps(sync_impl)
                    async def adapter(*a):
                        return sync_impl(*a)

                    call = icontract.ensure(post)(adapter)
                else:
                    class Base(icontract.DBC):
                        @icontract.ensure(post)
                        async def m(self):
                            return value

                    def sync_m(self):
                        return value

                    @functools.wraps(sync_m)
                    async def adapter(self):
                        return sync_m(self)

                    Sub = type(Base)("Sub", (Base,), {"m": adapter})
                    call = Sub().m
                try:
                    r = drive(call())
                    got = "returned the value" if r is value else "returned %r" % (r,)
                except icontract.ViolationError:
                    got = "violation"
                except BaseException as e:  # noqa
                    got = "%s: %s" % (type(e).__name__, e)
                want = "returned the value" if holds else "violation"
                ok_seen = len(seen) == 1 and seen[0] is value
                ctx.case(["wrapped-colour", where, repr(value), holds], True, sample={"directed": "async adapter with functools.wraps(sync function): %s, result %r" % (where, value)})
                ctx.count("directed:wrapped-colours")
                if got != want or not ok_seen:
                    ctx.fail("wrapped-colour|%s|%s" % (where, "holds" if holds else "violated"), {"directed": "wrapped-colours"},
                             "async adapter wrapping a sync function (%s) returning %r: expected %s with the postcondition evaluated once "
                             "against that value; got %s, postcondition saw %s" % (
                                 where, value, want, got, ["coroutine" if inspect.iscoroutine(x) else repr(x) for x in seen]))
                for x in seen:
                    if inspect.iscoroutine(x):
                        x.close()


def interpreter_modes(ctx):
    """Postconditions forced with enabled=True gate the return in every interpreter mode (default, -O, -OO): the scenarios of
    vf/scripts/c11_optmode.py whose postcondition is falsy or raises, on a function and on a method."""
    from vf import modes

    want = {"function/post-violated": ["violation"], "object/post-violated": ["violation"], "function/post-raises": ["KeyError"],
            "object/post-raises": ["KeyError"], "function/returns": ["ret", 1], "object/returns": ["ret", 1]}
    for flags in modes.MODES:
        mode = modes.mode_name(flags)
        got = modes.run_script("c11_optmode.py", flags)
        for label, first in sorted(want.items()):
            ctx.case(["interpreter-mode", mode, label], bool(flags), sample={"directed": "interpreter mode %s: %s" % (mode, label)})
            ctx.count("directed:interpreter-modes")
            if (got.get(label) or [None])[0] != first:
                ctx.fail("interpreter-mode|%s|%s" % (mode, label.split("/")[1]), {"directed": "interpreter-modes"},
                         "python %s, enabled=True postcondition, %s: expected the outcome %r, got %r" % (
                             " ".join(flags), label, first, (got.get(label) or [None])[0]))


def protected_members(ctx):
    """Members whose names start with one underscore (`_m`, a property `_p`, a static `_s`) inherit postconditions like any
    member: base with a postcondition, override without / with an own one, result violating the inherited postcondition."""
    import icontract

    for kind in ("method", "property", "static"):
        for own in (False, True):
            seen = []
            T = {"base": True}

            def base_post(result):
                seen.append("base")
                return T["base"]

            def own_post(result):
                seen.append("own")
                return True

            wrap = {"method": lambda f: f, "property": property, "static": staticmethod}[kind]
            first = (lambda self: 1) if kind != "static" else (lambda: 1)
            second = (lambda self: 2) if kind != "static" else (lambda: 2)
            Base = type(icontract.DBC)("Base", (icontract.DBC,), {"_m": wrap(icontract.ensure(base_post)(first))})
            ov = icontract.ensure(own_post)(second) if own else second
            Sub = type(icontract.DBC)("Sub", (Base,), {"_m": wrap(ov)})
            for tb in (True, False):
                T["base"] = tb
                del seen[:]
                try:
                    r = Sub()._m if kind == "property" else Sub()._m()
                    got = "returned %r" % (r,)
                except icontract.ViolationError:
                    got = "violation"
                except BaseException as e:  # noqa
                    got = "%s: %s" % (type(e).__name__, e)
                want = "returned 2" if tb else "violation"
                exp_seen = ["base"] + (["own"] if own and tb else [])
                ctx.case(["protected-member", kind, own, tb], True, sample={"directed": "protected %s `_m`, override %s own postcondition" % (kind, "with" if own else "without")})
                ctx.count("directed:protected-members")
                if got != want or seen != exp_seen:
                    ctx.fail("protected-member|%s" % kind, {"directed": "protected-members"},
                             "protected %s `_m` overridden in a DBC sub-class (%s own postcondition), inherited postcondition %s: "
                             "expected %s evaluating %r, got %s evaluating %r" % (kind, "with" if own else "without",
                                                                                 "holds" if tb else "is violated", want, exp_seen, got, seen))


def directed(ctx, only=None):
    """Histories: a contracted function that has ALREADY been called is adopted as the overriding method of a DBC
    sub-class (`class D(B): m = f`); from then on the inherited postconditions gate its returns as well. Sync and async,
    own postcondition present or not, inherited postcondition violated or not."""
    import icontract
    from vf.progmodel.run import drive

    wrapped_colours(ctx)
    interpreter_modes(ctx)
    protected_members(ctx)
    for is_async in (False, True):
        for own_post in (True, False):
            for warm in (True, False):
                seen = []
                T = {"base": True, "own": True}

                def base_post(result):
                    seen.append("base")
                    return T["base"]

                def own_postc(result):
                    seen.append("own")
                    return T["own"]

                class Base(icontract.DBC):
                    @icontract.ensure(base_post, "base-post")
                    def m(self, x):
                        return x

                if is_async:
                    async def f(self, x):
                        seen.append("body")
                        return x
                else:
                    def f(self, x):
                        seen.append("body")
                        return x
                if own_post:
                    f = icontract.ensure(own_postc, "own-post")(f)

                def call(fn, *a):
                    r = fn(*a)
                    return drive(r) if is_async else r

                if warm:
                    call(f, None, 1)  # the function is used stand-alone before it becomes a method
                D_ = type(Base)("D_", (Base,), {"m": f})
                label = "%s, own postcondition: %s, called before adoption: %s" % ("async" if is_async else "sync", own_post, warm)
                for tb in (True, False):
                    T["base"] = tb
                    del seen[:]
                    try:
                        call(D_().m, 5)
                        got = "returned"
                    except icontract.ViolationError as e:
                        got = "violation:" + ("base" if "base-post" in str(e) else "own")
                    want = "returned" if tb else "violation:base"
                    exp_seen = ["body", "base"] + (["own"] if own_post and tb else [])
                    ctx.case(["adopted", is_async, own_post, warm, tb], True, sample={"directed": "adoption: " + label, "inherited holds": tb})
                    if got != want or seen != exp_seen:
                        ctx.fail("adopted-function|%s|%s" % ("async" if is_async else "sync", "warm" if warm else "cold"),
                                 {"directed": "adopted"}, "%s; inherited postcondition %s: expected %s evaluating %r, got %s "
                                 "evaluating %r" % (label, "holds" if tb else "is violated", want, exp_seen, got, seen))
