"""C19 - misuse is rejected at the earliest point with the documented error. DESIGN 4/C19."""
import functools

from hypothesis import given, strategies as st

from vf import core, sigmodel
from vf.progmodel.run import drive

ID = "C19"
LEVEL = "exploration"
SHARDS = {"quick": 1, "thorough": 1}
RULE = ("(1) complete matrix: misuse kind {parameter named _ARGS/_KWARGS (plain, with default, positional-only, "
        "keyword-only, as *name, as **name); keyword argument _ARGS/_KWARGS at call; parameter or **kwargs entry named "
        "result/OLD with postconditions; invariant condition with a parameter other than self; coroutine-function "
        "invariant condition; snapshot before any postcondition (bare function, function with preconditions only, "
        "snapshot applied before the ensure); invalid `error` kinds} x decorator {require, ensure, snapshot, invariant "
        "where applicable} x callable kind {function, async function, method, staticmethod, classmethod, property "
        "getter/setter}. Oracle: exception class (TypeError / ValueError) and MOMENT (decorator creation, decorator "
        "application, call) as the statement assigns them; every misuse has a NEGATIVE twin (the same program without "
        "the misuse, e.g. a parameter named result with preconditions only) that must be accepted. (2) generated: "
        "sigmodel signatures in which one drawn parameter is renamed to a reserved name. non-trivial = every misuse "
        "cell and its twin; distinct = hash(cell).")
ASSUMPTIONS = ["an invariant condition with an extra parameter that has a default value is not probed (whether it counts "
               "as 'taking anything other than self' is not settled by the statement)"]
KNOWN = {}

FUNC_KINDS = ["function", "async", "method", "staticmethod", "classmethod"]


def define(params, kind, body="return 0"):
    """Return the undecorated function object for the given parameter list text."""
    first = {"method": "self", "classmethod": "cls"}.get(kind)
    plist = ", ".join([p for p in [first, params] if p])
    src = "%sdef f(%s):\n    %s\n" % ("async " if kind == "async" else "", plist, body)
    g = {}
    exec(compile(src, "<c19>", "exec"), g)
    return g["f"]


def call(f, kind, *args, **kwargs):
    lead = {"method": (object(),), "classmethod": (object,)}.get(kind, ())
    r = f(*lead, *args, **kwargs)
    if kind == "async":
        r = drive(r)
    return r


def observe(stages):
    """stages: list of (moment, thunk) executed in order, each thunk receives the previous result.
    Returns (moment, exception type name) of the first exception, or (None, None)."""
    val = None
    for moment, thunk in stages:
        try:
            val = thunk(val)
        except BaseException as e:  # noqa
            return moment, type(e).__name__, str(e)[:200]
    return None, None, ""


def cells():
    import icontract

    out = []  # (name, expected (moment, exc) or (None, None), stages)
    # 1. reserved parameter names
    forms = {"plain": "{n}", "with-default": "x, {n}=1", "positional-only": "{n}, /, x=0", "keyword-only": "x=0, *, {n}=1",
             "star": "x=0, *{n}", "double-star": "x=0, **{n}"}
    for name in ("_ARGS", "_KWARGS"):
        for fname, tmpl in forms.items():
            for kind in FUNC_KINDS:
                for dname in ("require", "ensure"):
                    params = tmpl.format(n=name)
                    stages = [("decorator-creation", lambda _, d=dname: getattr(icontract, d)(lambda: True)),
                              ("decoration", lambda dec, p=params, k=kind: dec(define(p, k)))]
                    out.append(("reserved-param/%s/%s/%s/%s" % (name, fname, kind, dname), ("decoration", "TypeError"), stages))
        # negative twin: a harmless name in the same positions
        for fname, tmpl in forms.items():
            params = tmpl.format(n="other")
            stages = [("decorator-creation", lambda _: icontract.require(lambda: True)),
                      ("decoration", lambda dec, p=params: dec(define(p, "function")))]
            out.append(("twin:reserved-param/%s/%s" % (name, fname), (None, None), stages))
    # 1a. the reserved parameter sits on an OVERRIDE that carries no contract of its own: it becomes a checked callable
    # when the meta-class hands it the contracts of the base, and is rejected at that moment (class definition)
    for name in ("_ARGS", "_KWARGS"):
        for fname, tmpl in forms.items():
            for member in ("method", "staticmethod", "property-setter"):
                for dname in ("require", "ensure"):
                    def mk(name=name, tmpl=tmpl, member=member, dname=dname, reserved=True):
                        n = name if reserved else "other"
                        params = tmpl.format(n=n)
                        g = {"icontract": icontract}
                        if member == "property-setter":
                            # setters take exactly one value: only the plain form places the name there
                            src = ("class Base(icontract.DBC):\n    @property\n    def p(self):\n        return 1\n"
                                   "    @p.setter\n    @icontract.%s(lambda: True)\n    def p(self, value):\n        pass\n"
                                   "class Sub(Base):\n    @property\n    def p(self):\n        return 2\n"
                                   "    @p.setter\n    def p(self, %s):\n        pass\n" % (dname, n))
                        else:
                            first = "" if member == "staticmethod" else "self, "
                            deco = "    @staticmethod\n" if member == "staticmethod" else ""
                            src = ("class Base(icontract.DBC):\n%s    @icontract.%s(lambda: True)\n    def m(%sx=0, **kwargs):\n"
                                   "        return 1\nclass Sub(Base):\n%s    def m(%s%s):\n        return 2\n" % (
                                       deco, dname, first, deco, first, params))
                        exec(src, g)
                        return g["Sub"]
                    if member == "property-setter" and fname != "plain":
                        continue
                    out.append(("reserved-param-on-override/%s/%s/%s/%s" % (name, fname, member, dname), ("definition", "TypeError"),
                                [("definition", lambda _, mk=mk: mk())]))
                    out.append(("twin:reserved-param-on-override/%s/%s/%s/%s" % (name, fname, member, dname), (None, None),
                                [("definition", lambda _, mk=mk: mk(reserved=False))]))
    # 2. reserved keyword at call
    for name in ("_ARGS", "_KWARGS"):
        for kind in FUNC_KINDS:
            for dname in ("require", "ensure"):
                def mk(dname=dname, kind=kind):
                    return getattr(icontract, dname)(lambda: True)(define("x, **kwargs", kind))
                stages = [("definition", lambda _, mk=mk: mk()),
                          ("call", lambda f, k=kind, n=name: call(f, k, 1, **{n: 2}))]
                out.append(("reserved-keyword/%s/%s/%s" % (name, kind, dname), ("call", "TypeError"), stages))
                stages = [("definition", lambda _, mk=mk: mk()), ("call", lambda f, k=kind: call(f, k, 1, other=2))]
                out.append(("twin:reserved-keyword/%s/%s/%s" % (name, kind, dname), (None, None), stages))
    # 2a. the same for a function WITHOUT **kwargs: the reserved keyword is reported before any condition is evaluated
    # (a condition that is evaluated with the shadowed placeholder shows up as its own exception)
    class ConditionEvaluated(Exception):
        pass

    def must_not_run():
        raise ConditionEvaluated("a condition was evaluated although the call passes a reserved keyword")

    for name in ("_ARGS", "_KWARGS"):
        for kind in FUNC_KINDS:
            for dname in ("require", "ensure"):
                def mk_nk(dname=dname, kind=kind):
                    return getattr(icontract, dname)(must_not_run)(define("x", kind))
                out.append(("reserved-keyword-no-varkw/%s/%s/%s" % (name, kind, dname), ("call", "TypeError"),
                            [("definition", lambda _, mk=mk_nk: mk()), ("call", lambda f, k=kind, n=name: call(f, k, 1, **{n: 2}))]))
    # 2b. the reserved keyword in a RE-ENTRANT call (made by the function's own condition while it is being checked)
    for name in ("_ARGS", "_KWARGS"):
        for kind in ("function", "async"):
            for dname in ("require", "ensure"):
                def mk_re(dname=dname, kind=kind, kw_name=name):
                    box = []

                    def cond(x):
                        if x == 1:
                            r = box[0](0, **{kw_name: 2})
                            if kind == "async":
                                drive(r)
                        return True

                    box.append(getattr(icontract, dname)(cond)(define("x, **kwargs", kind)))
                    return box[0]
                out.append(("reserved-keyword-reentrant/%s/%s/%s" % (name, kind, dname), ("call", "TypeError"),
                            [("definition", lambda _, mk=mk_re: mk()), ("call", lambda f, k=kind: call(f, k, 1))]))

                def mk_re_ok(dname=dname, kind=kind):
                    box = []

                    def cond(x):
                        if x == 1:
                            r = box[0](0, other=2)
                            if kind == "async":
                                drive(r)
                        return True

                    box.append(getattr(icontract, dname)(cond)(define("x, **kwargs", kind)))
                    return box[0]
                out.append(("twin:reserved-keyword-reentrant/%s/%s/%s" % (name, kind, dname), (None, None),
                            [("definition", lambda _, mk=mk_re_ok: mk()), ("call", lambda f, k=kind: call(f, k, 1))]))
    # 3. result / OLD with postconditions
    for name in ("result", "OLD"):
        for kind in FUNC_KINDS:
            def mk_post(name=name, kind=kind):
                return icontract.ensure(lambda: True)(define(name, kind))
            out.append(("postcondition-param/%s/%s" % (name, kind), ("call", "TypeError"),
                        [("definition", lambda _, mk=mk_post: mk()), ("call", lambda f, k=kind: call(f, k, 1))]))

            # the same with a precondition that is violated / raises / above or below the postcondition: the misuse is
            # rejected (TypeError) before any condition of the call is judged
            for how in ("violated-below", "violated-above", "raising", "violated-with-error-class"):
                def mk_both(name=name, kind=kind, how=how):
                    def boom():
                        raise KeyError("the precondition was evaluated")
                    pre = {"violated-below": icontract.require(lambda: False), "violated-above": icontract.require(lambda: False),
                           "raising": icontract.require(boom),
                           "violated-with-error-class": icontract.require(lambda: False, error=ValueError)}[how]
                    post = icontract.ensure(lambda: True)
                    if how == "violated-above":
                        return pre(post(define(name, kind)))
                    return post(pre(define(name, kind)))
                out.append(("postcondition-param-with-precondition/%s/%s/%s" % (name, kind, how), ("call", "TypeError"),
                            [("definition", lambda _, mk=mk_both: mk()), ("call", lambda f, k=kind: call(f, k, 1))]))

                def mk_both_kw(kind=kind, how=how):
                    pre = icontract.require(lambda: False, error=ValueError) if how == "violated-with-error-class" else \
                        icontract.require(lambda: False)
                    return icontract.ensure(lambda: True)(pre(define("x, **kwargs", kind)))
                if how in ("violated-below", "violated-with-error-class"):
                    out.append(("postcondition-keyword-with-precondition/%s/%s/%s" % (name, kind, how), ("call", "TypeError"),
                                [("definition", lambda _, mk=mk_both_kw: mk()),
                                 ("call", lambda f, k=kind, n=name: call(f, k, 1, **{n: 2}))]))

            def mk_pre(name=name, kind=kind):
                return icontract.require(lambda: True)(define(name, kind))
            out.append(("twin:postcondition-param/%s/%s" % (name, kind), (None, None),
                        [("definition", lambda _, mk=mk_pre: mk()), ("call", lambda f, k=kind: call(f, k, 1))]))

            def mk_kw(kind=kind):
                return icontract.ensure(lambda: True)(define("x, **kwargs", kind))
            out.append(("postcondition-keyword/%s/%s" % (name, kind), ("call", "TypeError"),
                        [("definition", lambda _, mk=mk_kw: mk()), ("call", lambda f, k=kind, n=name: call(f, k, 1, **{n: 2}))]))

            def mk_kw_pre(kind=kind):
                return icontract.require(lambda: True)(define("x, **kwargs", kind))
            out.append(("twin:postcondition-keyword/%s/%s" % (name, kind), (None, None),
                        [("definition", lambda _, mk=mk_kw_pre: mk()), ("call", lambda f, k=kind, n=name: call(f, k, 1, **{n: 2}))]))
    # 4./5. invariant conditions
    async def acond(self):
        return True

    async def acond0():
        return True

    class _AsyncCallable:
        async def __call__(self_, self):  # noqa
            return True

        async def method(self_, self):  # noqa
            return True

    import functools as _functools

    inv_bad = {"coroutine-callable-object": _AsyncCallable(), "coroutine-bound-method": _AsyncCallable().method,
               "coroutine-partial": _functools.partial(acond),
               "other-parameter": lambda x: True, "self-and-other": lambda self, x: True, "coroutine-function": acond,
               "coroutine-function-no-self": acond0,
               # every parameter kind a condition can declare besides `self`
               "self-and-keyword-only": lambda self, *, limit: True, "keyword-only": lambda *, limit: True,
               "self-and-varargs": lambda self, *args: True, "self-and-varkw": lambda self, **kwargs: True,
               "varargs": lambda *args: True, "varkw": lambda **kwargs: True, "positional-only-other": lambda x, /: True,
               "self-positional-only-and-other": lambda self, /, y: True}
    inv_ok = {"self": lambda self: True, "no-parameter": lambda: True}
    for check_on in ("default", "SETATTR", "ALL"):
        kw = {} if check_on == "default" else {"check_on": getattr(icontract.InvariantCheckEvent, check_on)}
        for nm, c in inv_bad.items():
            out.append(("invariant-condition/%s/%s" % (nm, check_on), ("decorator-creation", "ValueError"),
                        [("decorator-creation", lambda _, c=c, kw=kw: icontract.invariant(c, **kw))]))
        for nm, c in inv_ok.items():
            out.append(("twin:invariant-condition/%s/%s" % (nm, check_on), (None, None),
                        [("decorator-creation", lambda _, c=c, kw=kw: icontract.invariant(c, **kw)),
                         ("decoration", lambda dec: dec(type("K", (), {"m": lambda self: 1})))]))
    # 6. snapshot before any postcondition
    for kind in FUNC_KINDS:
        out.append(("snapshot-on-bare/%s" % kind, ("decoration", "ValueError"),
                    [("decorator-creation", lambda _: icontract.snapshot(lambda x: x)),
                     ("decoration", lambda dec, k=kind: dec(define("x", k)))]))
        out.append(("snapshot-over-preconditions-only/%s" % kind, ("decoration", "ValueError"),
                    [("decorator-creation", lambda _: icontract.snapshot(lambda x: x)),
                     ("decoration", lambda dec, k=kind: dec(icontract.require(lambda x: True)(define("x", k))))]))
        out.append(("twin:snapshot-after-postcondition/%s" % kind, (None, None),
                    [("decorator-creation", lambda _: icontract.snapshot(lambda x: x)),
                     ("decoration", lambda dec, k=kind: dec(icontract.ensure(lambda x: True)(define("x", k)))),
                     ("call", lambda f, k=kind: call(f, k, 1))]))
    out.append(("snapshot-unnamed-no-parameter", ("decorator-creation", "ValueError"),
                [("decorator-creation", lambda _: icontract.snapshot(lambda: 1))]))
    out.append(("snapshot-unnamed-two-parameters", ("decorator-creation", "ValueError"),
                [("decorator-creation", lambda _: icontract.snapshot(lambda x, y: 1))]))
    # 7. invalid error kinds

    class NotExc:
        pass

    class CallableInstance:
        def __call__(self):
            return ValueError()

    def fn():
        return ValueError()

    bad = {"int": 1, "str": "x", "non-exception class": NotExc, "partial": functools.partial(fn),
           "callable instance": CallableInstance(), "builtin": len, "tuple of classes": (ValueError, KeyError),
           # invalid values that are falsy (a test like `if not error` must not take them for 'no error given')
           "zero": 0, "float zero": 0.0, "False": False, "empty str": "", "empty bytes": b"", "empty list": [],
           "empty tuple": (), "empty dict": {}, "empty set": set()}
    good = {"class": ValueError, "base class": KeyboardInterrupt, "instance": ValueError("x"), "function": fn,
            "lambda": lambda: ValueError(), "bound method": CallableInstance().__call__}
    for dname in ("require", "ensure", "invariant"):
        cond = (lambda self: True) if dname == "invariant" else (lambda: True)
        for nm, b in bad.items():
            out.append(("invalid-error/%s/%s" % (dname, nm), ("decorator-creation", "ValueError"),
                        [("decorator-creation", lambda _, d=dname, c=cond, b=b: getattr(icontract, d)(c, error=b))]))
        for nm, g in good.items():
            out.append(("twin:invalid-error/%s/%s" % (dname, nm), (None, None),
                        [("decorator-creation", lambda _, d=dname, c=cond, g=g: getattr(icontract, d)(c, error=g))]))
    return out


def check_cell(ctx, name, expected, stages):
    moment, exc, msg = observe(stages)
    case = {"cell": name}
    ctx.case(case, True, sample={"cell": name, "expected": list(expected), "observed": [moment, exc]})
    ctx.count("kind:" + name.split("/")[0])
    if (moment, exc) != tuple(expected):
        ctx.fail("%s|%s|exp:%s@%s|got:%s@%s" % (name.split("/")[0], "/".join(name.split("/")[1:3]), expected[1], expected[0], exc, moment),
                 case, "%s: expected %s at %s, observed %s at %s (%s)" % (name, expected[1], expected[0], exc, moment, msg))


@st.composite
def st_reserved_sig(draw):
    sig = draw(sigmodel.st_sig())
    names = sigmodel.sig_params(sig) + ([sigmodel.VA_NAME] if sig["va"] else []) + ([sigmodel.VK_NAME] if sig["vk"] else [])
    if not names:
        sig = {"po": [], "pk": ["c"], "va": False, "ko": [], "vk": False, "dflt": []}
        names = ["c"]
    victim = draw(st.sampled_from(names))
    reserved = draw(st.sampled_from(["_ARGS", "_KWARGS"]))
    return sig, victim, reserved, draw(st.sampled_from(["require", "ensure"])), draw(st.sampled_from(FUNC_KINDS))


def run(ctx, tier, seed, shard, nshards):
    import icontract

    for name, expected, stages in cells():
        check_cell(ctx, name, expected, stages)
    ctx.exhaustive = True
    ctx.extra["exhaustive_scope"] = "the misuse-kind x decorator x callable-kind matrix with negative twins"
    n = 300 if tier == "quick" else 3000

    @given(st_reserved_sig())
    def test(t):
        sig, victim, reserved, dname, kind = t
        text = sigmodel.render_params(sig, lambda n: "0")
        import re

        text = re.sub(r"\b%s\b" % re.escape(victim), reserved, text)
        stages = [("decorator-creation", lambda _: getattr(icontract, dname)(lambda: True)),
                  ("decoration", lambda dec: dec(define(text, kind)))]
        check_cell(ctx, "generated-reserved-param/%s/%s/%s/(%s)" % (reserved, kind, dname, text), ("decoration", "TypeError"), stages)

    core.run_hypothesis(test, seed, n)


def replay(ctx, case):
    import icontract

    name = case["cell"]
    if name.startswith("generated-reserved-param/"):
        _, reserved, kind, dname, text = name.split("/", 4)
        stages = [("decorator-creation", lambda _: getattr(icontract, dname)(lambda: True)),
                  ("decoration", lambda dec: dec(define(text[1:-1], kind)))]
        return check_cell(ctx, name, ("decoration", "TypeError"), stages)
    for n, expected, stages in cells():
        if n == name:
            check_cell(ctx, n, expected, stages)
