"""C18 - introspection data tells integrators the truth. DESIGN 4/C18."""
import inspect

from hypothesis import strategies as st

from vf import core, vrt
from vf.vrt import V
from vf.progmodel import driver as D
from vf.progmodel import harness as H
from vf.progmodel import ref as REF
from vf.props import _single as S

ID = "C18"
LEVEL = "exploration"
SHARDS = {"quick": 1, "thorough": 16}
N_QUICK, N_THOROUGH = 300, 2000
RULE = ("case = (generated program of the C01-C04/C08 families: function or DBC DAG with methods, static/class methods, "
        "properties, __init__, invariants, foreign decorators; one call per class; one truth assignment of the "
        "pre/postconditions out of all 2^n, n<=7). Three oracles: (a) static - the ids (descriptions) found in "
        "find_checker(...).__preconditions__/__postconditions__/__postcondition_snapshots__ and cls.__invariants__ "
        "equal the reference model's effective contracts, in order; (b) dynamic - evaluating those lists by hand "
        "exactly as tests/test_for_integrators.py does gives the verdict (pre ok / post ok) of the real call; (c) the "
        "patched registration hook sees every created class exactly once. non-trivial = the member's contracts are "
        "inherited/merged, or it is a property/static/class method, with a falsy contract; distinct = hash(program, "
        "ops, assignment). Plus the invariant matrix (inv_cells): 8 class shapes x check_on of two invariants x their truth "
        "x {construction, method call, assignment}: cls.__invariants__ judged by hand vs. the real operation.")
ASSUMPTIONS = ["invariant conditions are held true here so that the verdict of a call is decided by pre/postconditions",
               "contracts are identified through their description '#<id>'"]
DECO_KW = dict(n_pre=(0, 3), n_post=(0, 3), n_snap=(0, 2), n_wraps=(0, 2),
               err_forms=("default", "instance", "class", "lambda", "def"))
HIER_KW = dict(n_classes=(1, 5), dag=True, with_invs=True, with_init=True, multi_root=True, async_ok=True)
KNOWN = {}


def cid_of_contract(c):
    d = getattr(c, "description", None)
    return int(d[1:]) if d and d.startswith("#") else None


def resolve_callable(cls, f):
    """The function object an integrator would look at for member f on class cls."""
    kind = f["kind"]
    name = {"init": "__init__", "new": "__new__"}.get(kind, f["name"])
    static = inspect.getattr_static(cls, name)
    if kind in ("getter", "setter", "deleter"):
        return {"getter": static.fget, "setter": static.fset, "deleter": static.fdel}[kind]
    if isinstance(static, (staticmethod, classmethod)):
        return static.__func__
    return static


def static_check(ctx, case, res, model):
    import icontract._checkers as CK

    sig = D.struct_sig(case)
    mod = res.loaded.mod
    prog = case["program"]
    for f in prog.get("funcs", []):
        if model.def_error.get(("f", f["name"])) is None:
            compare_lists(ctx, case, res, sig, "function " + f["name"], CK.find_checker(getattr(mod, f["name"])),
                          model.eff_func(f["name"]))
    for ci, c in enumerate(prog.get("classes", [])):
        if model.def_error.get(ci) is not None:
            continue
        cls = getattr(mod, c["name"])
        keys = set()
        for k in model.mro[ci]:
            keys |= set(model.members(k))
        for key in sorted(keys):
            eff = model.eff(ci, key)
            if eff is None:
                continue
            func = resolve_callable(cls, eff["func"])
            compare_lists(ctx, case, res, sig, "%s.%s/%s" % (c["name"], key[0], key[1]), CK.find_checker(func), eff)
        exp = [i["cid"] for i in model.invariants(ci)]
        got = [cid_of_contract(i) for i in getattr(cls, "__invariants__", [])]
        if exp != got:
            ctx.fail("static-invariants|%s" % sig, case, D.describe(
                case, res, "%s.__invariants__ lists %r, the declaration implies %r" % (c["name"], got, exp)))


def compare_lists(ctx, case, res, sig, where, checker, eff):
    exp_pre = [[d["cid"] for d in g] for g in eff["pre"]]
    exp_post = [d["cid"] for d in eff["post"]]
    exp_snaps = [REF.snap_name(s) for s in eff["snaps"]]
    if checker is None:
        got_pre, got_post, got_snaps = [], [], []
    else:
        got_pre = [[cid_of_contract(c) for c in g] for g in checker.__preconditions__]
        got_post = [cid_of_contract(c) for c in checker.__postconditions__]
        got_snaps = [s.name for s in checker.__postcondition_snapshots__]
    for what, e, g in (("preconditions", exp_pre, got_pre), ("postconditions", exp_post, got_post),
                       ("snapshots", exp_snaps, got_snaps)):
        if e != g and not (what == "snapshots" and not exp_post and not got_post):
            ctx.fail("static-%s|%s" % (what, sig), case, D.describe(
                case, res, "%s: introspected %s %r, the declaration implies %r" % (where, what, g, e)))


def manual_verdict(checker, kwargs, result):
    """Evaluate the introspected lists the way tests/test_for_integrators.py does."""
    import icontract._checkers as CK

    if checker is None:
        return True, True
    pre_ok = True
    for group in checker.__preconditions__:
        pre_ok = True
        for contract in group:
            ck = CK.select_condition_kwargs(contract=contract, resolved_kwargs=kwargs)
            pre_ok = bool(contract.condition(**ck))
            if not pre_ok:
                break
        if pre_ok:
            break
    if not pre_ok:
        return False, None
    kwargs = dict(kwargs)
    if checker.__postconditions__ and checker.__postcondition_snapshots__:
        old = {}
        for snap in checker.__postcondition_snapshots__:
            sk = CK.select_capture_kwargs(a_snapshot=snap, resolved_kwargs=kwargs)
            old[snap.name] = snap.capture(**sk)
        kwargs["OLD"] = CK.Old(mapping=old)
    kwargs["result"] = result
    post_ok = True
    for contract in checker.__postconditions__:
        ck = CK.select_condition_kwargs(contract=contract, resolved_kwargs=kwargs)
        post_ok = bool(contract.condition(**ck))
        if not post_ok:
            break
    return True, post_ok


def judge(ctx, case, truth, res, model):
    import icontract._checkers as CK

    if res.def_mismatch:
        return
    sig = D.struct_sig(case)
    if not case.get("_static_done"):
        case["_static_done"] = True
        static_check(ctx, case, res, model)
    roles = {}
    prog = case["program"]
    from vf.props.c04 import role_of_cid, cid_of

    roles = role_of_cid(prog)
    mod = res.loaded.mod
    inst_cls = {}
    for i, op, rs, qs, ro, qo in S.per_op(res):
        if op["op"] == "new":
            inst_cls[op["k"]] = op["cls"]
        if qo[0] == "skip":
            continue
        eff = S.op_eff(model, res, op)
        if eff is None:
            continue
        f = eff["func"]
        if op["op"] == "callf":
            func = getattr(mod, op["f"])
            selfobj = None
        else:
            ci = inst_cls.get(op.get("k"))
            cls = getattr(mod, prog["classes"][ci]["name"])
            func = resolve_callable(cls, f)
            selfobj = res.run.instances.get(op.get("k"))
            if selfobj is None:
                if op["op"] != "new":
                    continue
                selfobj = object.__new__(cls) if False else vrt.Tok("uninitialised-self")
        checker = CK.find_checker(func)
        kwargs = {}
        for p in f.get("params", []):
            if p in (op.get("args") or {}):
                kwargs[p] = vrt.Tok("manual:" + p)
            elif p in f.get("defaults", {}):
                kwargs[p] = None
        if f["kind"] in ("method", "getter", "setter", "deleter", "init"):
            kwargs["self"] = selfobj
        elif f["kind"] in ("class", "new"):
            kwargs["cls"] = type(selfobj) if selfobj is not None else None
        kwargs["_ARGS"] = ()
        kwargs["_KWARGS"] = {}
        # real verdict
        body_run = any(e[0] == "body" for e in qs)
        if qo[0] == "exc":
            c = cid_of(qo[1])
            role = roles.get(c)
            own = {d["cid"] for g in eff["pre"] for d in g} | {d["cid"] for d in eff["post"]}
            if c is not None and c not in own:
                continue  # raised by a nested call (e.g. super().__init__()), not by this callable's lists
            if role == "inv":
                continue
            if c is None and not (qo[1][0] == "tok" and qo[1][1].startswith("exc:")):
                # neither a contract's error nor the body's own exception (e.g. a TypeError raised by the checker):
                # no verdict over the lists explains it, unless evaluating them by hand fails in the same way
                run = vrt.Run(truth=dict(truth))
                V.begin(run)
                try:
                    try:
                        manual_verdict(checker, kwargs, vrt.Tok("manual-result"))
                        by_hand = "no error"
                    except TypeError as e:
                        by_hand = "TypeError"
                finally:
                    V.end()
                if by_hand == "no error" and qo[1][0] == "typeerror":
                    ctx.fail("manual-verdict|%s|%s|manual:evaluates|real:TypeError" % (op["op"], sig), case, D.describe(
                        case, res, "op %d %r: the introspected lists evaluate by hand without an error, the real call "
                                   "raised %r" % (i, op, qo[:2])))
                    return
                continue
            real_pre = role != "pre"
            real_post = None if (qo[1][0] == "tok" and qo[1][1].startswith("exc:")) else (role != "post")
        else:
            real_pre, real_post = True, True
        if real_pre is False and any(e[0] == "cap" for e in qs):
            # judging the lists by hand, a call rejected by its preconditions never reaches the captures
            ctx.fail("capture-for-a-rejected-call|%s|%s" % (op["op"], sig), case, D.describe(
                case, res, "op %d %r: the preconditions reject the call, yet the real call evaluated captures: %r" % (
                    i, op, [e[:2] for e in qs if e[0] == "cap"])))
            return
        run = vrt.Run(truth=dict(truth))
        V.begin(run)
        try:
            try:
                man_pre, man_post = manual_verdict(checker, kwargs, vrt.Tok("manual-result"))
            except TypeError as e:
                ctx.fail("manual-typeerror|%s|%s" % (op["op"], sig), case, D.describe(
                    case, res, "op %d %r: evaluating the introspected lists by hand failed: %s" % (i, op, e)))
                return
        finally:
            V.end()
        if man_pre != real_pre or (man_pre and real_post is not None and man_post is not None and man_post != real_post):
            ctx.fail("manual-verdict|%s|%s|manual:%s/%s|real:%s/%s" % (op["op"], sig, man_pre, man_post, real_pre, real_post),
                     case, D.describe(case, res, "op %d %r: verdict by hand over the introspected lists: pre ok=%s, post "
                                                 "ok=%s; the real call: pre ok=%s, post ok=%s (outcome %r)" % (
                                          i, op, man_pre, man_post, real_pre, real_post, qo[:2])))
            return


def nontrivial(case, truth, res, mask, n):
    falsy = n - bin(mask).count("1")
    p = case["program"]
    kinds = {f["kind"] for c in p.get("classes", []) for f in c.get("members", [])}
    return falsy >= 1 and (len(p.get("classes", [])) >= 2 or bool(kinds & {"getter", "setter", "deleter", "static", "class"}))


@st.composite
def strategy(draw):
    # async callables too: their (sync) conditions sit in the same lists and are evaluated by hand in the same way
    case = draw(st.one_of(D.st_function_case(DECO_KW, async_ok=True), D.st_class_case(DECO_KW, HIER_KW),
                          D.st_class_case(DECO_KW, HIER_KW)))
    # hold the invariants: force their codes to be truthy in both positions
    codes = dict(case["codes"])
    for c in case["program"].get("classes", []):
        for i in c.get("invs", []):
            codes[i["cid"]] = (codes[i["cid"]][0], codes[i["cid"]][0])
    case["codes"] = codes
    return case


def hook_check(ctx, case):
    """Every class created through the metaclass is announced exactly once to the registration hook."""
    import icontract._metaclass as MC
    from vf.progmodel import run as RUN

    seen = []
    orig = MC._register_for_hypothesis
    MC._register_for_hypothesis = lambda cls: seen.append(cls)
    try:
        with RUN.Loaded(case["program"]) as loaded:
            defined = [getattr(loaded.mod, c["name"]) for c in case["program"]["classes"]
                       if loaded.errors.get(c["name"]) is None]
            names = [c.__name__ for c in seen if c.__module__ == loaded.modname]
    finally:
        MC._register_for_hypothesis = orig
    exp = [c.__name__ for c in defined]
    if sorted(names) != sorted(exp):
        ctx.fail("hook|%s" % ("missing" if len(names) < len(exp) else "repeated"), {"program": case["program"], "ops": [],
                                                                                  "truth": {}, "hook": True},
                 "registration hook saw %r, classes created: %r" % (names, exp))
    ctx.count("hook_checked_programs")


def same_name_classes(ctx):
    """DISTINCT classes that share module and qualified name - a class factory called repeatedly, a class statement in a
    loop, a class re-created by dataclasses.dataclass(slots=True) or by type(cls)(name, bases, ns), through DBC and through
    a sub-class of DBCMeta - are each announced exactly once (the announcement carries the class object itself)."""
    import dataclasses
    import icontract
    import icontract._metaclass as MC

    seen = []
    orig = MC._register_for_hypothesis
    MC._register_for_hypothesis = lambda cls: seen.append(cls)
    created = {}
    try:
        def factory(tag):
            class Product(icontract.DBC):
                @icontract.require(lambda x: x > 0)
                def m(self, x):
                    return (tag, x)
            return Product

        created["factory"] = [factory(i) for i in range(3)]
        loop = []
        for i in range(3):
            class InLoop(icontract.DBC):
                pass
            loop.append(InLoop)
        created["loop"] = loop

        class Meta(icontract.DBCMeta):
            pass

        created["sub-metaclass"] = [Meta("SameName", (), {}) for _ in range(2)]

        @icontract.invariant(lambda self: self.x >= 0)
        class Point(icontract.DBC):
            x: int = 0

        first = Point
        second = dataclasses.dataclass(slots=True)(Point)
        created["dataclass-slots"] = [first, second] if second is not first else [first]
        third = type(first)(first.__name__, first.__bases__, {k: v for k, v in vars(first).items() if k not in ("__dict__", "__weakref__")})
        created["type-call"] = [third]
    finally:
        MC._register_for_hypothesis = orig
    for what, classes in created.items():
        counts = [sum(1 for c in seen if c is k) for k in classes]
        ctx.case(["same-name-classes", what], True, sample={"directed": "classes sharing a qualified name: %s" % what, "announcements": counts})
        ctx.count("directed:same-name-classes")
        if counts != [1] * len(classes):
            ctx.fail("hook|same-name|%s" % what, {"directed": "same-name-classes"},
                     "%d distinct classes named %s (%s): announced %r times, expected once each" % (
                         len(classes), classes[0].__qualname__, what, counts))


INV_SHAPES = ("init", "noinit", "noinit-sub", "tuple-sub", "namedtuple", "slots", "dataclass", "init-sub", "prop-extended-sub",
              "prop-redefined-sub")
CHECK_ONS = ("default", "CALL", "SETATTR", "ALL")


def inv_cells(ctx):
    """The class-invariant list judged by hand: every class shape x check_on of two invariants x their truth values x
    {construction, public method call, attribute assignment}. By hand = walk cls.__invariants__ in order, keep those whose
    check_on selects the event (all of them for a construction - C03), call .condition(self=...); the first falsy one is
    the verdict. The real operation must agree (violated or not, and which invariant)."""
    import collections
    import dataclasses
    import itertools

    import icontract

    E = icontract.InvariantCheckEvent

    class Inv1(Exception):
        pass

    class Inv2(Exception):
        pass

    def build(shape, on1, on2, T):
        def kw(on):
            return {} if on == "default" else {"check_on": getattr(E, on)}

        def c1(self):
            return T[1]

        def c2(self):
            return T[2]

        d1 = icontract.invariant(c1, "#1", error=Inv1, **kw(on1))
        d2 = icontract.invariant(c2, "#2", error=Inv2, **kw(on2))

        def deco(cls):
            return d2(d1(cls))

        if shape in ("init", "init-sub"):
            class K(icontract.DBC):
                def __init__(self):
                    object.__setattr__(self, "x", 0)

                def m(self):
                    return 1
            K = deco(K)
            if shape == "init-sub":
                class K(K):  # noqa
                    pass
        elif shape in ("noinit", "noinit-sub"):
            class K(icontract.DBC):
                x = 0

                def m(self):
                    return 1
            K = deco(K)
            if shape == "noinit-sub":
                class K(K):  # noqa
                    pass
        elif shape in ("prop-extended-sub", "prop-redefined-sub"):
            class B(icontract.DBC):
                def __init__(self):
                    object.__setattr__(self, "x", 0)

                def m(self):
                    return 1

                @property
                def p(self):
                    return 1
            B = deco(B)
            if shape == "prop-extended-sub":
                class K(B):
                    @B.p.setter
                    def p(self, value):  # the inherited property gets a setter in the sub-class
                        pass
            else:
                class K(B):
                    @property
                    def p(self):
                        return 2

                    @p.setter
                    def p(self, value):
                        pass
        elif shape == "tuple-sub":
            class K(tuple):
                def m(self):
                    return 1
            K = deco(K)
        elif shape == "namedtuple":
            class K(collections.namedtuple("B", "a")):
                def m(self):
                    return 1
            K = deco(K)
        elif shape == "slots":
            class K:
                __slots__ = ("x",)

                def __init__(self):
                    object.__setattr__(self, "x", 0)

                def m(self):
                    return 1
            K = deco(K)
        else:
            @dataclasses.dataclass
            class K:
                x: int = 0

                def m(self):
                    return 1
            K = deco(K)
        return K

    def by_hand(cls, event, T):
        for inv in cls.__invariants__:
            if event is not None and event not in inv.check_on:
                continue
            if not inv.condition(self=None):
                return inv.description
        return None

    def real(fn):
        try:
            fn()
        except Inv1:
            return "#1"
        except Inv2:
            return "#2"
        return None

    for shape in INV_SHAPES:
        for on1, on2 in itertools.product(CHECK_ONS, repeat=2):
            T = {1: True, 2: True}
            K = build(shape, on1, on2, T)
            ids = [i.description for i in K.__invariants__]
            if ids != ["#1", "#2"]:
                ctx.fail("invariant-list|%s" % shape, {"inv_cell": [shape, on1, on2]},
                         "%s: __invariants__ lists %r, the class declares ['#1', '#2']" % (shape, ids))
                continue
            args = ((1,),) if shape == "namedtuple" else ()
            inst = K(*args)
            for t1, t2 in itertools.product((True, False), repeat=2):
                cell = {"inv_cell": [shape, on1, on2, t1, t2]}
                # assigning to a property is an attribute assignment if some invariant asks for those (the setter is then a
                # nested call on the object), otherwise a call of the setter
                set_event = E.SETATTR if any(E.SETATTR in i.check_on for i in K.__invariants__) else E.CALL
                for opname, event, fn in (("construct", None, lambda: K(*args)), ("call", E.CALL, lambda: inst.m()),
                                          ("setattr", E.SETATTR, lambda: setattr(inst, "x", 5)),
                                          ("property-get", E.CALL, lambda: inst.p), ("property-set", set_event, lambda: setattr(inst, "p", 5))):
                    if opname == "setattr" and shape in ("tuple-sub", "namedtuple"):
                        continue
                    if opname.startswith("property") and not shape.startswith("prop-"):
                        continue
                    T[1], T[2] = t1, t2
                    try:
                        man = by_hand(K, event, T)
                        got = real(fn)
                    finally:
                        T[1], T[2] = True, True
                    ctx.case(["inv_cell", shape, on1, on2, t1, t2, opname], not (t1 and t2),
                             sample=lambda: {"shape": shape, "check_on": [on1, on2], "truth": [t1, t2], "op": opname,
                                             "by_hand": man, "real": got})
                    ctx.count("inv_cells")
                    if man != got:
                        ctx.fail("invariant-verdict|%s|%s|by-hand:%s|real:%s" % (shape, opname, man, got), dict(cell, op=opname),
                                 "class shape %s, invariants #1 (check_on=%s, %s) and #2 (check_on=%s, %s), %s: judging "
                                 "cls.__invariants__ by hand gives %s, the real operation gives %s" % (
                                     shape, on1, t1, on2, t2, opname, man or "no violation", got or "no violation"))


def o_worker():
    """Runs in a child interpreter (normal / -O / -OO): classes over DBC whose contracts are all enabled=True; prints what
    the integrator interface shows and how often the registration hook was called."""
    import json
    import sys

    core.setup_repo_path()
    import icontract
    import icontract._checkers as CK
    import icontract._metaclass as MC

    seen = []
    MC._register_for_hypothesis = lambda cls: seen.append(cls.__name__)

    def pre(x):
        return x > 0

    def post(result):
        return result > 0

    def inv(self):
        return self.v >= 0

    @icontract.invariant(inv, "inv", enabled=True)
    class Base(icontract.DBC):
        def __init__(self):
            self.v = 1

        @icontract.require(pre, "pre", enabled=True)
        @icontract.ensure(post, "post", enabled=True)
        def m(self, x):
            return x

    class Derived(Base):
        def m(self, x):
            return -x if x > 100 else x

        def fresh(self):
            self.v = -1

    out = {"hook": seen, "debug": __debug__}
    ch = CK.find_checker(Derived.m)
    out["derived_lists"] = None if ch is None else [[[c.description for c in g] for g in ch.__preconditions__],
                                                    [c.description for c in ch.__postconditions__]]
    out["derived_invariants"] = [i.description for i in getattr(Derived, "__invariants__", [])]
    verdicts = {}
    for label, fn in (("pre-violated", lambda: Derived().m(-1)), ("post-violated", lambda: Derived().m(500)),
                      ("inv-violated", lambda: Derived().fresh()), ("ok", lambda: Derived().m(5))):
        try:
            fn()
            verdicts[label] = "returned"
        except icontract.ViolationError as e:
            verdicts[label] = "violation"
        except BaseException as e:  # noqa
            verdicts[label] = type(e).__name__
    out["verdicts"] = verdicts
    json.dump(out, sys.stdout)


def interpreter_modes(ctx):
    """Explicitly enabled contracts: the introspection lists, the verdicts and the hook announcements are the same in the
    normal interpreter and under -O / -OO."""
    import json
    import os
    import subprocess
    import sys

    want = {"hook": ["Base", "Derived"], "derived_lists": [[["pre"]], ["post"]], "derived_invariants": ["inv"],
            "verdicts": {"pre-violated": "violation", "post-violated": "violation", "inv-violated": "violation", "ok": "returned"}}
    for mname, flags in (("normal", []), ("-O", ["-O"]), ("-OO", ["-OO"])):
        p = subprocess.run([sys.executable, "-B"] + flags + ["-c", "from vf.props import c18; c18.o_worker()"],
                           capture_output=True, text=True, cwd=core.VERIF_DIR, env=dict(os.environ), timeout=600)
        if p.returncode != 0:
            raise core.HarnessError("C18 worker %s failed: %s" % (mname, p.stderr[-2000:]))
        got = json.loads(p.stdout)
        for key, exp in want.items():
            ctx.case(["interpreter-mode", mname, key], mname != "normal", sample={"interpreter": mname, key: got.get(key)})
            if got.get(key) != exp:
                ctx.fail("interpreter-mode|%s|%s" % (mname, key), {"interpreter_mode": mname},
                         "python %s, contracts with enabled=True: %s is %r, expected %r" % (mname, key, got.get(key), exp))


def run_once(ctx, tier, seed):
    inv_cells(ctx)
    interpreter_modes(ctx)
    same_name_classes(ctx)


def run(ctx, tier, seed, shard, nshards):
    from hypothesis import given

    n = N_QUICK if tier == "quick" else N_THOROUGH

    def exclude(c, case, model):
        if case["program"].get("classes"):
            hook_check(ctx, case)
        return None

    D.explore(ctx, seed, n, strategy(), judge, limit_all=7 if tier == "quick" else 9, n_sample=24,
              nontrivial=nontrivial, exclude=exclude)


def replay(ctx, case):
    if case.get("interpreter_mode"):
        before = ctx.evaluations
        interpreter_modes(ctx)
        ctx.evaluations = before
        return
    if case.get("inv_cell"):
        before = ctx.evaluations
        inv_cells(ctx)  # the matrix is small; the failing cell is reported again with the same bucket
        ctx.evaluations = before
        return
    if case.get("directed") == "same-name-classes":
        before = ctx.evaluations
        same_name_classes(ctx)
        ctx.evaluations = before + 1
        return
    if case.get("hook"):
        return hook_check(ctx, case)
    case = dict(case)
    case.pop("_static_done", None)
    D.replay_case(ctx, case, judge)
