"""C08 - see DESIGN.md section 4/C08. Built on progmodel; oracle projection = _single.judge_c08."""
from hypothesis import strategies as st

from vf.progmodel import driver as D
from vf.props import _single as S

ID = "C08"
LEVEL = "exploration"
SHARDS = {"quick": 1, "thorough": 16}
DECO_KW = dict(n_pre=(0, 2), n_post=(0, 2), n_snap=(0, 3), n_wraps=(0, 1),
               err_forms=("default", "default", "class", "baseclass", "instance", "lambda", "def", "method"))
HIER_KW = dict(n_classes=(1, 4), dag=True, with_invs=True, with_init=True, with_new=True)
JUDGE = S.judge_c08
KNOWN = {}


@st.composite
def strategy(draw):
    case = draw(st.one_of(D.st_function_case(DECO_KW), D.st_class_case(DECO_KW, HIER_KW), D.st_class_case(DECO_KW, HIER_KW)))
    # on async callables a capture may be a coroutine function, or a sync function returning a coroutine or any other
    # awaitable: OLD holds the awaited value, captured before the body starts
    p = case["program"]
    for f in list(p.get("funcs", [])) + [m for c in p.get("classes", []) for m in c.get("members", [])]:
        if f.get("async"):
            for d in f.get("decos", []):
                if d["t"] == "snapshot" and draw(st.integers(0, 1)) == 0:
                    d["flavor"] = draw(st.sampled_from(["corofunc", "ret_coro", "awaitable"]))
                    d["lam"] = False
    return case


def exclude(ctx, case, model):
    if D.d23_shape(case["program"]):
        return "D23"  # open finding recorded under C14 (library-made __new__ shadows another base's __new__)
    return None


def run(ctx, tier, seed, shard, nshards):
    n = N_QUICK if tier == "quick" else N_THOROUGH
    D.explore(ctx, seed, n, strategy(), JUDGE, limit_all=6 if tier == "quick" else 9, n_sample=24,
              nontrivial=nontrivial, exclude=exclude)
    if shard == 0:
        directed(ctx)


def replay(ctx, case):
    if case.get("directed"):
        return directed(ctx, only=case["directed"])
    D.replay_case(ctx, case, JUDGE)

N_QUICK, N_THOROUGH = 400, 2000
RULE = ("case = (generated program as in C01 with 0..3 snapshots (named / unnamed single-parameter / named "
        "multi-parameter) per callable, own and inherited, bodies that mutate/rebind/leave their argument; all truth "
        "assignments) + an enumerated definition-time matrix (duplicate name on one function / across a hierarchy, "
        "unnamed capture with 0 or 2 parameters, snapshot without postcondition below it, OLD.<unknown>) x callable "
        "kind x sync/async. Oracle: capture count/position and the tokens seen through OLD equal the reference. "
        "non-trivial = precondition fails with snapshots present, or the body mutates a captured argument, or a "
        "snapshot is inherited. Plus directed families: odd names, snapshots added after class creation, captures that "
        "call the very callable they belong to (function/method/static x sync/async x direct/helper x 1..2 snapshots x 3 "
        "consecutive calls: each capture exactly once per checked call).")
ASSUMPTIONS = ["a snapshot declared at the root of a diamond is not generated (rejection as duplicate is unspecified)"]


def nontrivial(case, truth, res, mask, n):
    p = case["program"]
    fs = list(p.get("funcs", [])) + [f for c in p.get("classes", []) for f in c.get("members", [])]
    has_snap = any(d["t"] == "snapshot" for f in fs for d in f.get("decos", []))
    if not has_snap:
        return False
    for f in fs:
        pres = [d for d in f.get("decos", []) if d["t"] == "require"]
        if any(d["t"] == "snapshot" for d in f.get("decos", [])):
            if any(any(not S.is_truthy(code_) for code_ in (truth.get(d["cid"]) or ["T"])) for d in pres):
                return True
            if (f.get("body") or {}).get("mut", {}).get("x") == "mutate":
                return True
    return len(p.get("classes", [])) >= 2


def _f(kind, is_async, decos, name="m"):
    from vf.progmodel import gen as G

    params, defaults = G.params_of(kind)
    return {"name": name, "kind": kind, "async": is_async, "params": params, "defaults": defaults, "decos": decos,
            "body": {"ret": "obj"}}


def directed_cases():
    """Definition-time matrix (enumerated)."""
    from vf.progmodel import gen as G

    out = []
    for kind in ("function", "method", "static", "class", "getter", "setter"):
        for is_async in ((False, True) if kind in ("function", "method", "static", "class") else (False,)):
            names = [n for n in G.avail_names(kind) if n != "cls"]
            a1 = names[:1]
            variants = {
                "dup-name-one-function": [{"t": "snapshot", "sid": 2, "name": "s", "args": a1},
                                          {"t": "snapshot", "sid": 1, "name": "s", "args": a1},
                                          {"t": "ensure", "cid": 1, "args": [], "err": {"form": "default"}}],
                "unnamed-zero-params": [{"t": "snapshot", "sid": 1, "name": None, "args": []},
                                        {"t": "ensure", "cid": 1, "args": [], "err": {"form": "default"}}],
                "snapshot-on-bare": [{"t": "snapshot", "sid": 1, "name": "s", "args": a1}],
                "snapshot-over-require-only": [{"t": "snapshot", "sid": 1, "name": "s", "args": a1},
                                               {"t": "require", "cid": 1, "args": [], "err": {"form": "default"}}],
                "snapshot-below-ensure": [{"t": "ensure", "cid": 1, "args": [], "err": {"form": "default"}},
                                          {"t": "snapshot", "sid": 1, "name": "s", "args": a1}],
                "valid-control": [{"t": "snapshot", "sid": 1, "name": "s", "args": a1},
                                  {"t": "ensure", "cid": 1, "args": ["OLD"], "err": {"form": "default"}}],
            }
            if len(names) >= 2:
                variants["unnamed-two-params"] = [{"t": "snapshot", "sid": 1, "name": None, "args": names[:2]},
                                                  {"t": "ensure", "cid": 1, "args": [], "err": {"form": "default"}}]
                # several parameters stay several when some (or all) of them carry a default value
                variants["unnamed-two-params-one-defaulted"] = [
                    {"t": "snapshot", "sid": 1, "name": None, "args": names[:2], "dargs": names[1:2]},
                    {"t": "ensure", "cid": 1, "args": [], "err": {"form": "default"}}]
                variants["unnamed-two-params-both-defaulted"] = [
                    {"t": "snapshot", "sid": 1, "name": None, "args": names[:2], "dargs": names[:2]},
                    {"t": "ensure", "cid": 1, "args": [], "err": {"form": "default"}}]
            for vname, decos in variants.items():
                f = _f(kind, is_async, decos, "f0" if kind == "function" else ("p" if kind in ("getter", "setter") else "m"))
                if kind == "function":
                    prog = {"funcs": [f], "classes": []}
                    ops = [{"op": "callf", "f": "f0", "args": {"x": "a:x"}}]
                else:
                    members = [f]
                    if kind == "setter":
                        members = [_f("getter", False, [], "p"), f]
                    prog = {"funcs": [], "classes": [{"name": "K0", "bases": [], "root": "DBC", "shape": "plain",
                                                       "invs": [], "members": members}]}
                    ops = [{"op": "new", "cls": 0, "k": 0, "args": {}},
                           G.op_for_member(kind, 0, f["name"], {"x": "a:x"} if kind not in ("getter", "setter") else (
                               {"value": "a:v"} if kind == "setter" else {}))]
                out.append(("%s/%s%s" % (vname, kind, "/async" if is_async else ""), prog, ops))
            if kind != "function":
                # duplicate name across a hierarchy
                base = _f(kind, is_async, [{"t": "snapshot", "sid": 1, "name": "s", "args": a1},
                                           {"t": "ensure", "cid": 1, "args": [], "err": {"form": "default"}}],
                          "p" if kind in ("getter", "setter") else "m")
                der = _f(kind, is_async, [{"t": "snapshot", "sid": 2, "name": "s", "args": a1},
                                          {"t": "ensure", "cid": 2, "args": [], "err": {"form": "default"}}],
                         "p" if kind in ("getter", "setter") else "m")
                bm, dm = [base], [der]
                if kind == "setter":
                    bm = [_f("getter", False, [], "p"), base]
                    dm = [_f("getter", False, [], "p"), der]
                prog = {"funcs": [], "classes": [
                    {"name": "K0", "bases": [], "root": "DBC", "shape": "plain", "invs": [], "members": bm},
                    {"name": "K1", "bases": [0], "root": "DBC", "shape": "plain", "invs": [], "members": dm}]}
                out.append(("dup-name-hierarchy/%s%s" % (kind, "/async" if is_async else ""), prog,
                            [{"op": "new", "cls": 1, "k": 1, "args": {}}]))
                # the same name in two sibling bases, merged by an overriding sub-class
                import copy

                der2 = _f(kind, is_async, [], "p" if kind in ("getter", "setter") else "m")
                d2m = [der2] if kind != "setter" else [_f("getter", False, [], "p"), der2]
                prog2 = {"funcs": [], "classes": [
                    {"name": "K0", "bases": [], "root": "DBC", "shape": "plain", "invs": [], "members": copy.deepcopy(bm)},
                    {"name": "K1", "bases": [], "root": "DBC", "shape": "plain", "invs": [], "members": copy.deepcopy(dm)},
                    {"name": "K2", "bases": [0, 1], "root": "DBC", "shape": "plain", "invs": [], "members": d2m}]}
                out.append(("dup-name-siblings/%s%s" % (kind, "/async" if is_async else ""), prog2,
                            [{"op": "new", "cls": 2, "k": 2, "args": {}}]))
    return out


def directed(ctx, only=None):
    import icontract

    for name, prog, ops in directed_cases():
        if only and only != name:
            continue
        case = {"program": prog, "ops": ops, "codes": {1: ("T", "F"), 2: ("T", "F")}, "masks": [3], "directed": name}
        D.run_one(ctx, case, _judge_directed(name), nontrivial=lambda *a: True)
        ctx.count("directed:definition-matrix")
    if only in (None, "odd-names"):
        odd_names(ctx)
    if only in (None, "posthoc-duplicates"):
        posthoc_duplicates(ctx)
    if only in (None, "reentrant-captures"):
        reentrant_captures(ctx)
    # OLD.<unknown> -> AttributeError naming the attribute
    if only in (None, "old-unknown"):
        @icontract.snapshot(lambda x: x, name="known")
        @icontract.ensure(lambda OLD: OLD.nope is None)
        def f(x):
            return x

        @icontract.snapshot(lambda x: x, name="known")
        @icontract.ensure(lambda OLD: OLD.nope is None)
        async def g(x):
            return x

        from vf.progmodel.run import drive

        for label, call in (("sync", lambda: f(1)), ("async", lambda: drive(g(1)))):
            try:
                call()
                got = "returned"
            except AttributeError as e:
                got = "ok" if "nope" in str(e) else "AttributeError without the name: %s" % e
            except BaseException as e:  # noqa
                got = "%s: %s" % (type(e).__name__, e)
            ctx.case(["old-unknown", label], True, sample={"directed": "OLD.nope on %s function" % label})
            if got != "ok":
                ctx.fail("OLD-unknown|%s" % label, {"directed": "old-unknown"},
                         "reading OLD.nope must raise an AttributeError naming it, got: %s" % got)


def reentrant_captures(ctx):
    """A capture that calls the very callable it belongs to - a query whose previous value is captured
    (`@snapshot(lambda self: self.total(), name="total")` on `total` itself), directly or through a helper - is still
    evaluated exactly once per checked call (C10: the nested call is a plain call while the function's contracts are being
    evaluated). Enumerated: function / method / static method x sync / async x direct / through a helper x 1..3
    consecutive checked calls x one or two such snapshots."""
    import itertools
    import icontract
    from vf.progmodel.run import drive

    for kind, is_async, via, n_snaps in itertools.product(("function", "method", "static"), (False, True), ("direct", "helper"), (1, 2)):
        log = []
        ns = {"icontract": icontract, "log": log}
        A, AW = ("async ", "await ") if is_async else ("", "")
        if is_async:
            # the capture hands out the coroutine of the nested call; it is awaited by the library
            cap_body = "return target(%s)"
        else:
            cap_body = "return target(%s)"
        selfarg = "self" if kind == "method" else ""
        src = ["def helper(*a):", "    return TARGET[0](*a)",
               "def cap1(%s):" % selfarg, "    log.append('cap1')", "    return %s(%s)" % ("helper" if via == "helper" else "TARGET[0]", selfarg),
               "def cap2(%s):" % selfarg, "    log.append('cap2')", "    return %s(%s)" % ("helper" if via == "helper" else "TARGET[0]", selfarg),
               "def post(OLD):", "    log.append('post')", "    return OLD.one is not None"]
        decos = ["@icontract.snapshot(cap1, name='one')"] + (["@icontract.snapshot(cap2, name='two')"] if n_snaps == 2 else []) + [
            "@icontract.ensure(post)"]
        ind = "" if kind == "function" else "    "
        if kind != "function":
            src.append("class K:")
        if kind == "static":
            src.append(ind + "@staticmethod")
        src += [ind + d for d in decos]
        src += [ind + "%sdef total(%s):" % (A, selfarg), ind + "    log.append('body')", ind + "    return 5"]
        ns["TARGET"] = [None]
        label = "%s%s, capture calls it %s, %d snapshot(s)" % ("async " if is_async else "", kind, via, n_snaps)
        try:
            exec("\n".join(src), ns)
            if kind == "function":
                ns["TARGET"][0] = ns["total"]
                top = ns["total"]
            elif kind == "method":
                ns["TARGET"][0] = ns["K"].total
                top = ns["K"]().total
            else:
                ns["TARGET"][0] = ns["K"].total
                top = ns["K"].total
            got = []
            for _ in range(3):
                del log[:]
                try:
                    r = top()
                    if is_async:
                        r = drive(r)
                    got.append((r, list(log)))
                except RecursionError:
                    got.append(("RecursionError", len(log)))
                except BaseException as e:  # noqa
                    got.append((type(e).__name__, str(e)[:80]))
        except BaseException as e:  # noqa
            got = ("definition failed", type(e).__name__, str(e)[:120])
        one = (["cap2", "body"] if n_snaps == 2 else []) + ["cap1", "body"] + ["body", "post"]  # nearest the function first
        want = [(5, one)] * 3
        ctx.case(["reentrant-capture", kind, is_async, via, n_snaps], True, sample={"directed": label, "outcome": str(got)[:120]})
        ctx.count("directed:reentrant-captures")
        if got != want:
            ctx.fail("reentrant-capture|%s|%s|%s" % (kind, "async" if is_async else "sync", via), {"directed": "reentrant-captures"},
                     "%s: three consecutive calls, expected each to return 5 with the events %r; got %r" % (label, one, got))


def odd_names(ctx):
    """Snapshot names are arbitrary identifiers: `self` (the unnamed capture of `lambda self: ...`), `mapping`, `kwargs`,
    `name`, `OLD`-like words - whatever the captured value is called, OLD.<name> holds it (sync and async)."""
    import icontract
    from vf.progmodel.run import drive

    for is_async in (False, True):
        for name, unnamed in (("self", True), ("self", False), ("mapping", True), ("mapping", False), ("kwargs", False),
                              ("name", False), ("cls", False), ("snapshot", False), ("args", False)):
            seen = []
            param = name if unnamed else "x"
            cap = eval("lambda %s: ('captured', %s)" % (param, param))
            post = lambda OLD: seen.append(getattr(OLD, name)) or True  # noqa
            deco_snap = icontract.snapshot(cap) if unnamed else icontract.snapshot(cap, name=name)
            src = "%sdef f(%s):\n    return 1\n" % ("async " if is_async else "", param)
            g = {}
            exec(src, g)
            try:
                f = deco_snap(icontract.ensure(post)(g["f"]))
                if param == "self":
                    holder = type("K", (), {"f": f})()
                    r = holder.f()
                    arg = holder
                else:
                    arg = {"k": 1} if param == "mapping" else 5
                    r = f(arg)
                if is_async:
                    r = drive(r)
                got = ("ret", r, list(seen))
                want = ("ret", 1, [("captured", arg)])
            except BaseException as e:  # noqa
                got = ("exc", type(e).__name__, str(e)[:120])
                want = ("ret", 1)
            label = "%s snapshot %s %r%s" % ("async" if is_async else "sync", "unnamed, on the parameter" if unnamed else "named", name,
                                            "" if unnamed else " (capturing x)")
            ctx.case(["odd-name", is_async, name, unnamed], True, sample={"directed": label, "outcome": list(got)[:2]})
            ctx.count("directed:odd-snapshot-names")
            if got != want:
                ctx.fail("odd-snapshot-name|%s" % name, {"directed": "odd-names"},
                         "%s: the postcondition must see OLD.%s == the captured value and the call return 1; got %r" % (label, name, got))


def posthoc_duplicates(ctx):
    """A snapshot added to a callable AFTER its class exists (Sub.m = snapshot(...)(Sub.m)) is checked against every
    snapshot the callable already has - its own and the ones inherited through the meta-class: a duplicate name is
    rejected with ValueError at that moment; a new name is accepted and captured."""
    import icontract

    for kind in ("method", "property getter"):
        for where in ("inherited name", "own name", "fresh name"):
            seen = []

            def cap(tag):
                def c(self):
                    seen.append(tag)
                    return tag
                return c

            base_f = icontract.snapshot(cap("base"), name="items")(icontract.ensure(lambda OLD: OLD.items == "base")(lambda self: 1))
            sub_f = icontract.snapshot(cap("own"), name="mine")(icontract.ensure(lambda OLD: OLD.mine == "own")(lambda self: 2))
            wrap = property if kind.startswith("property") else (lambda f: f)
            try:
                A = type(icontract.DBC)("A", (icontract.DBC,), {"f": wrap(base_f)})
                Sub = type(icontract.DBC)("Sub", (A,), {"f": wrap(sub_f)})
                target = Sub.__dict__["f"].fget if kind.startswith("property") else Sub.__dict__["f"]
                name = {"inherited name": "items", "own name": "mine", "fresh name": "later"}[where]
                try:
                    icontract.snapshot(cap("later"), name=name)(target)
                    got = "accepted"
                except ValueError:
                    got = "ValueError"
                del seen[:]
                r = Sub().f if kind.startswith("property") else Sub().f()
                got = (got, r, sorted(seen))
            except BaseException as e:  # noqa
                got = ("failed", type(e).__name__, str(e)[:120])
            want = ("accepted", 2, ["base", "later", "own"]) if where == "fresh name" else ("ValueError", 2, ["base", "own"])
            label = "%s: a snapshot with %s added to the override after the class exists" % (kind, where)
            ctx.case(["posthoc-duplicate", kind, where], True, sample={"directed": label, "outcome": str(got)[:100]})
            ctx.count("directed:posthoc-duplicates")
            if got != want:
                ctx.fail("posthoc-duplicate|%s|%s" % (kind.split()[0], where.split()[0]), {"directed": "posthoc-duplicates"},
                         "%s: expected %r, got %r" % (label, want, got))


def _judge_directed(name):
    def j(ctx, case, truth, res, model):
        case = dict(case)
        case["directed"] = name
        before = dict(ctx.failures)
        S.judge_c08(ctx, case, truth, res, model)
        S.judge_c16(ctx, case, truth, res, model)
        # re-label the buckets of this directed case so that known-finding matching can see the variant
        for b in list(ctx.failures):
            if b not in before:
                f = ctx.failures.pop(b)
                nb = "directed:%s|%s" % (name.split("/")[0], b)
                f.bucket = nb
                ctx.failures[nb] = f
                ctx.failure_counts[nb] = ctx.failure_counts.pop(b, 1)
    return j
