"""C12 - concurrent callers never disable each other's checks. DESIGN 4/C12, 3.4.

The harness owns the schedule. asyncio tasks are emulated exactly the way asyncio runs them - every step of a
coroutine is executed with ``context.run(coro.send, None)`` in the task's own contextvars.Context - and suspend
only at harness gates placed in user code the library calls (gated conditions, captures, bodies). Threads are real
threads passing a baton at the same gates.
"""
import contextvars
import itertools
import threading

from hypothesis import given, strategies as st

from vf import core, vrt
from vf.vrt import V
from vf.progmodel import run as RUN
from vf.progmodel import harness as H
from vf.progmodel import ref as REF

ID = "C12"
LEVEL = "exploration"
SHARDS = {"quick": 1, "thorough": 16}
RULE = ("scenario = (program with an async contracted function (gated precondition, gate in the body, gated "
        "postcondition, snapshot) and a class with an invariant and two async public methods; a set of 2..3 "
        "concurrent calls with individually drawn verdicts (satisfying / violating precondition / violating "
        "postcondition / invariant broken); context-inheritance mode in {fresh context per task, context copied before "
        "the parent's first checked call, context copied AFTER the parent's first checked call, copy_context().run in a "
        "worker thread, context copied while the parent is suspended in the body of a checked function and of a public "
        "method of the shared object}; driver in {emulated asyncio tasks, real threads with sync functions - these are "
        "also switched inside the invariant's condition and in an argument's __repr__}). ALL interleavings of "
        "the tasks' gate-to-gate segments are enumerated for 2 tasks (up to 4 segments each) and 3 tasks (2..3 "
        "segments each); Hypothesis draws the scenarios. Oracle: the verdict of every call (returned token / identity "
        "or class of the error and the contract it belongs to) under the schedule equals the verdict of the same call "
        "run alone in a fresh thread. non-trivial = a schedule in which a violating call starts while another call of "
        "the same function/object is suspended inside its check or body; distinct = hash(scenario, mode, schedule).")
ASSUMPTIONS = ["pre-emption between two bytecodes inside the library's wrappers is not scheduled (threads switch only at "
               "gates in user code: conditions, captures, bodies and the __repr__ of an argument while a violation "
               "message is built); see DESIGN section 7",
               "emulated tasks reproduce asyncio's context handling (Task.__step runs in the task's Context)"]
KNOWN = {
    "D11": lambda bucket, case: "mode:copied-after" in bucket or "mode:thread-copied-after" in bucket,
    # a task whose context was copied while a public method of the object is in flight skips that object's invariants:
    # only the verdicts of calls on instance 0 that hinge on the invariant differ
    "D29": lambda bucket, case: "mode:copied-mid-call" in bucket and bucket.endswith(("|m:inv", "|s:inv")) and case.get("d29_only", False),
}

MODES = ["fresh", "copied-before", "copied-after", "thread-copied-after", "copied-mid-call"]
ASYNC_ONLY_MODES = ("thread-copied-after", "copied-mid-call")


def program(is_async=True):
    def f(name, kind, decos, **kw):
        params, defaults = (["x", "y"], {"y": "None"})
        d = {"name": name, "kind": kind, "async": is_async, "params": params, "defaults": defaults, "decos": decos,
             "body": {"ret": "obj"}}
        d.update(kw)
        return d

    fl = "gated" if is_async else "sync"
    f0 = f("f0", "function", [
        {"t": "require", "cid": 1, "args": ["x"], "lam": False, "flavor": fl, "err": {"form": "default"}},
        # a second precondition in the same group (evaluated first): a call can be suspended in it while another
        # call of f0 goes through the whole group
        {"t": "require", "cid": 6, "args": ["x"], "lam": False, "flavor": fl, "err": {"form": "default"}},
        {"t": "snapshot", "sid": 1, "name": "s1", "args": ["x"], "flavor": fl, "lam": False},
        # the postcondition reads OLD: it holds only if OLD.s1 is the object THIS call captured (see truthfn)
        {"t": "ensure", "cid": 2, "args": ["x", "result", "OLD"], "lam": False, "flavor": fl, "err": {"form": "default"}}])
    # a function whose parameters are all defaulted: it is called WITHOUT any argument; its postcondition hinges on the
    # identity of what this very call captured (see truthfn)
    g0 = f("g0", "function", [
        {"t": "snapshot", "sid": 2, "name": "s2", "args": [], "flavor": fl, "lam": False},
        {"t": "ensure", "cid": 7, "args": ["result", "OLD"], "lam": False, "flavor": fl, "err": {"form": "default"}}],
        defaults={"x": "None", "y": "None"})
    m = f("m", "method", [{"t": "require", "cid": 3, "args": ["x"], "lam": False, "flavor": fl, "err": {"form": "default"}}])
    n = f("n", "method", [{"t": "ensure", "cid": 4, "args": ["x"], "lam": False, "flavor": fl, "err": {"form": "default"}}])
    init = {"name": "__init__", "kind": "init", "async": False, "params": ["x", "y"], "defaults": {"x": "None", "y": "None"},
            "decos": [], "body": {"ret": "None"}, "super": "absent"}
    # a plain (sync) method next to the coroutine methods: it runs in one go while a coroutine method of the same object
    # is suspended in another task
    s_ = f("s", "method", [], **{"async": False})
    k0 = {"name": "K0", "bases": [], "root": "DBC", "shape": "plain", "members": [m, n, s_, init],
          "invs": [{"cid": 5, "on": "CALL", "lam": False, "selfarg": True, "err": {"form": "default"}}]}
    return {"funcs": [f0, g0], "classes": [k0]}


# verdict kinds of one call: which contract (if any) is falsy for this call
CALLS = {
    "f0:ok": ({"op": "callf", "f": "f0"}, {}),
    "f0:pre": ({"op": "callf", "f": "f0"}, {1: "F"}),
    "f0:pre6": ({"op": "callf", "f": "f0"}, {6: "F"}),
    "f0:post": ({"op": "callf", "f": "f0"}, {2: "F"}),
    "g0:ok": ({"op": "callf", "f": "g0", "noargs": True}, {}),
    "g0:post": ({"op": "callf", "f": "g0", "noargs": True}, {7: "F"}),
    "m:ok": ({"op": "call", "k": 0, "m": "m"}, {}),
    "m:pre": ({"op": "call", "k": 0, "m": "m"}, {3: "F"}),
    "m:inv": ({"op": "call", "k": 0, "m": "m"}, {5: "F"}),
    "n:ok": ({"op": "call", "k": 0, "m": "n"}, {}),
    "n:post": ({"op": "call", "k": 0, "m": "n"}, {4: "F"}),
    "n1:post": ({"op": "call", "k": 1, "m": "n"}, {4: "F"}),
    # the constructor of the EXISTING shared object is run again (obj.__init__()): a checked constructor call in flight
    "reinit": ({"op": "reinit", "k": 0}, {}),
    "s:ok": ({"op": "call", "k": 0, "m": "s", "sync": True}, {}),
    "s:inv": ({"op": "call", "k": 0, "m": "s", "sync": True}, {5: "F"}),
    "new": ({"op": "new", "cls": 0, "k": 2}, {}),
    "new:inv": ({"op": "new", "cls": 0, "k": 2}, {5: "F"}),
}


def truthfn(task_truth):
    """Truth depends on who calls: the argument label 'a:t<i>' or (for invariants) the current task."""
    def tf(run, cid, kw):
        ti = getattr(run.tl, "task", None)
        if cid in (2, 7) and "OLD" in kw:
            sid = 1 if cid == 2 else 2
            mine = run.task_caps.get((ti, sid))
            if mine is not None and getattr(kw["OLD"], "s%d" % sid, None) is not mine:
                run.event(("foreign-OLD", ti))
                return "F"  # the call sees a value captured by another call in flight: its verdict changes
        return task_truth.get(ti, {}).get(cid, "T")
    return tf


def _note_capture(sid):
    def note(run, val):
        run.task_caps[(getattr(run.tl, "task", None), sid)] = val
        return val
    return note


class Sched:
    """Emulated asyncio tasks: (coroutine, Context); a step runs until the next gate."""

    def __init__(self, loaded, run, calls, mode, is_async):
        self.loaded, self.run, self.calls, self.mode, self.is_async = loaded, run, calls, mode, is_async


def make_op(name, ti):
    op, _ = CALLS[name]
    op = dict(op)
    if op["op"] not in ("new", "reinit") and not op.pop("noargs", False):
        op["args"] = {"x": "a:t%d" % ti}
    else:
        op["args"] = {}
    return op


def setup_run(loaded, task_truth):
    run = vrt.Run(truth={}, event_budget=5000)
    run.tl = threading.local()
    run.hooks[("truthfn",)] = truthfn(task_truth)
    run.gate_actions = {}
    run.task_caps = {}
    run.hooks[("wrapcap", 1)] = _note_capture(1)
    run.hooks[("wrapcap", 2)] = _note_capture(2)
    for kind, ident in (("cond", 1), ("cond", 2), ("cond", 3), ("cond", 4), ("cond", 6), ("cond", 7), ("cap", 1), ("cap", 2),
                        ("body", "f0"), ("body", "g0"), ("body", "K0.m"), ("body", "K0.n")):
        tag = ("gate", kind, ident)
        run.hooks[("gate", kind, ident)] = (lambda t: (lambda r: vrt.Yield(t)))(tag)
    return run


def classify(loaded, run, fn):
    try:
        v = fn()
        return ("ret", RUN.describe_ret(run, v).rsplit(".", 1)[0] if not isinstance(v, type(None)) else "NoneType")
    except BaseException as e:  # noqa
        w = RUN.classify_exc(loaded, run, e)
        return ("exc",) + tuple(w[:2])


def run_async_schedule(loaded, names, mode, schedule):
    """Execute the calls as emulated tasks under ``schedule`` (a word over task indices). Returns verdicts."""
    task_truth = {i: dict(CALLS[n][1]) for i, n in enumerate(names)}
    task_truth["parent"] = {}
    box = {}

    def main():
        run = setup_run(loaded, task_truth)
        V.begin(run, global_=True)
        try:
            ex = RUN.Executor(loaded, run)
            run.tl.task = "parent"
            # instances are created by the parent before anything else (their constructors are checked calls of
            # other functions/objects; the 'first checked call of the parent' below is a call of f0 / m itself)
            base_ctx_before = contextvars.copy_context()

            def parent_setup():
                for k in (0, 1):
                    ex.inst[k] = getattr(loaded.mod, "K0")()

            parent_ctx = contextvars.copy_context()
            parent_ctx.run(parent_setup)
            if mode.endswith("copied-after"):
                def warm():
                    RUN.drive(loaded.mod.f0(x=run.tok("a:parent")), {("gate", k, i): None for k, i in ()}) if False else None
                    c = loaded.mod.f0(x=run.tok("a:parent"))
                    try:
                        while True:
                            c.send(None)
                    except StopIteration:
                        pass
                    c2 = ex.inst[0].m(x=run.tok("a:parent"))
                    try:
                        while True:
                            c2.send(None)
                    except StopIteration:
                        pass
                parent_ctx.run(warm)
            parents = []
            if mode == "copied-mid-call":
                # the parent is in the middle of two checked calls - suspended in the BODY of f0 and of inst0.m - when the
                # contexts of the tasks are copied (tasks created by a running call: create_task / gather in a body)
                def start_parents():
                    for make, stop in ((lambda: loaded.mod.f0(x=run.tok("a:parent")), ("gate", "body", "f0")),
                                       (lambda: ex.inst[0].m(x=run.tok("a:parent")), ("gate", "body", "K0.m"))):
                        c = make()
                        for _ in range(10):
                            if c.send(None) == stop:
                                break
                        else:
                            raise core.HarnessError("C12: the parent call did not reach its body gate")
                        parents.append(c)
                parent_ctx.run(start_parents)
            tasks = []
            for i, nme in enumerate(names):
                op = make_op(nme, i)
                if mode == "fresh":
                    ctx = contextvars.Context()
                elif mode == "copied-before":
                    ctx = base_ctx_before.run(contextvars.copy_context)
                else:
                    ctx = parent_ctx.run(contextvars.copy_context)
                tasks.append({"op": op, "ctx": ctx, "coro": None, "done": False, "out": None, "i": i})

            def step(t):
                def go():
                    run.tl.task = t["i"]
                    if t["coro"] is None:
                        kw = ex.arg_objects(t["op"])
                        if t["op"]["op"] == "callf":
                            t["coro"] = getattr(loaded.mod, t["op"]["f"])(**kw)
                        elif t["op"]["op"] == "call" and t["op"].get("sync"):
                            t["done"] = True
                            t["out"] = classify(loaded, run, lambda: getattr(ex.inst[t["op"]["k"]], t["op"]["m"])(**kw))
                            return
                        elif t["op"]["op"] == "call":
                            t["coro"] = getattr(ex.inst[t["op"]["k"]], t["op"]["m"])(**kw)
                        elif t["op"]["op"] == "reinit":
                            t["done"] = True
                            t["out"] = classify(loaded, run, lambda: ex.inst[t["op"]["k"]].__init__())
                            return
                        else:
                            # a constructor is synchronous: it runs in one step
                            t["done"] = True
                            t["out"] = classify(loaded, run, lambda: getattr(loaded.mod, "K0")())
                            return
                    try:
                        t["coro"].send(None)
                    except StopIteration as e:
                        t["done"] = True
                        t["out"] = ("ret", (run.label_of(e.value) or type(e.value).__name__).rsplit(".", 1)[0])
                    except BaseException as e:  # noqa
                        t["done"] = True
                        w = RUN.classify_exc(loaded, run, e)
                        t["out"] = ("exc",) + tuple(w[:2])
                if mode.startswith("thread"):
                    th = threading.Thread(target=lambda: t["ctx"].run(go))
                    th.start()
                    th.join()
                else:
                    t["ctx"].run(go)

            overlap = False
            for ti in list(schedule) + list(range(len(tasks))) * 12:
                t = tasks[ti]
                if t["done"]:
                    continue
                if any(o["coro"] is not None and not o["done"] and o is not t for o in tasks) and t["coro"] is None:
                    overlap = True
                step(t)
                if all(x["done"] for x in tasks):
                    break
            def finish_parents():
                run.tl.task = "parent"
                for c in parents:
                    try:
                        for _ in range(10):
                            c.send(None)
                    except StopIteration:
                        pass
                    except BaseException:  # noqa - the tasks may have left the shared object broken
                        pass
            parent_ctx.run(finish_parents)
            box["outs"] = [t["out"] for t in tasks]
            box["overlap"] = overlap or bool(parents)
        finally:
            V.end()

    core.in_fresh_thread(main)
    return box["outs"], box["overlap"]


def run_thread_schedule(loaded, names, mode, schedule):
    """Sync functions in real threads; a baton is passed at the gates of the (sync) conditions and bodies."""
    task_truth = {i: dict(CALLS[n][1]) for i, n in enumerate(names)}
    task_truth["parent"] = {}
    box = {}

    def main():
        run = vrt.Run(truth={}, event_budget=5000)
        run.tl = threading.local()
        run.hooks[("truthfn",)] = truthfn(task_truth)
        run.task_caps = {}
        run.hooks[("wrapcap", 1)] = _note_capture(1)
        run.hooks[("wrapcap", 2)] = _note_capture(2)
        V.begin(run, global_=True)
        try:
            ex = RUN.Executor(loaded, run)
            run.tl.task = "parent"
            ctx_before = contextvars.copy_context()  # before the parent has executed any contracted code
            for k in (0, 1):
                ex.inst[k] = getattr(loaded.mod, "K0")()
            if mode.endswith("copied-after"):
                loaded.mod.f0(x=run.tok("a:parent"))
                ex.inst[0].m(x=run.tok("a:parent"))
            n = len(names)
            go_ev = [threading.Event() for _ in range(n)]
            back_ev = threading.Event()
            state = {"done": [False] * n, "outs": [None] * n, "started": [False] * n}

            def gate_hook(ti_getter):
                def hook(r, kw):
                    ti = getattr(r.tl, "task", None)
                    if not isinstance(ti, int):
                        return
                    back_ev.set()
                    go_ev[ti].wait(5)
                    go_ev[ti].clear()
                return hook

            # threads can also be switched INSIDE an invariant's condition (it is synchronous: no switch point for tasks)
            for key in (("cond", 1), ("cond", 2), ("cond", 3), ("cond", 4), ("cond", 5), ("cond", 6), ("cond", 7), ("cap", 1),
                        ("cap", 2), ("body", "f0"), ("body", "g0"), ("body", "K0.m"), ("body", "K0.n"), ("body", "K0.__init__")):
                run.hooks[key] = gate_hook(None)

            repr_gate = gate_hook(None)

            class GateRepr:
                """The argument of a call: rendering it (while a violation message is built) is a switch point too."""

                def __init__(self, label):
                    self.label = label

                def __repr__(self):
                    repr_gate(run, {})
                    return "<%s>" % self.label

            def worker(i):
                def body():
                    run.tl.task = i
                    V.begin(run)
                    go_ev[i].wait(5)
                    go_ev[i].clear()
                    op = make_op(names[i], i)
                    kw = ex.arg_objects(op)
                    if "x" in kw:
                        kw["x"] = GateRepr("a:t%d" % i)
                    if op["op"] == "callf":
                        fn = lambda: getattr(loaded.mod, op["f"])(**kw)
                    elif op["op"] == "call":
                        fn = lambda: getattr(ex.inst[op["k"]], op["m"])(**kw)
                    elif op["op"] == "reinit":
                        fn = lambda: ex.inst[op["k"]].__init__()
                    else:
                        fn = lambda: getattr(loaded.mod, "K0")()
                    state["outs"][i] = classify(loaded, run, fn)
                    state["done"][i] = True
                    back_ev.set()
                if mode == "copied-before":
                    ctx = ctx_before.run(contextvars.copy_context)
                    return threading.Thread(target=lambda: ctx.run(body))
                if mode.endswith("copied-after"):
                    ctx = contextvars.copy_context()
                    return threading.Thread(target=lambda: ctx.run(body))
                return threading.Thread(target=body)

            threads = [worker(i) for i in range(n)]
            for th in threads:
                th.start()
            overlap = False
            for ti in list(schedule) + list(range(n)) * 12:
                if state["done"][ti]:
                    continue
                if not state["started"][ti] and any(state["started"][j] and not state["done"][j] for j in range(n)):
                    overlap = True
                state["started"][ti] = True
                back_ev.clear()
                go_ev[ti].set()
                if not back_ev.wait(5):
                    raise core.HarnessError("C12: controller time-out waiting for thread %d" % ti)
                if all(state["done"]):
                    break
            for th in threads:
                th.join(5)
            box["outs"] = state["outs"]
            box["overlap"] = overlap
        finally:
            V.end()

    core.in_fresh_thread(main)
    return box["outs"], box["overlap"]


_alone_cache = {}


def alone(loaded, name, is_async):
    """Verdict of the call run alone in a fresh thread, on a module of its own (cached per call kind)."""
    key = (name, is_async, id(loaded))
    if key not in _alone_cache:
        runner = run_async_schedule if is_async else run_thread_schedule
        fresh = RUN.Loaded(program(is_async))
        try:
            outs, _ = runner(fresh, [name], "fresh", [0] * 8)
        finally:
            fresh.close()
        _alone_cache[key] = outs[0]
    return _alone_cache[key]


def interleavings(counts):
    """All words in which task i occurs counts[i] times."""
    word = []
    for i, c in enumerate(counts):
        word += [i] * c
    return sorted(set(itertools.permutations(word)))


_loaded = {}


def get_loaded(is_async):
    if is_async not in _loaded:
        _loaded[is_async] = RUN.Loaded(program(is_async))
    return _loaded[is_async]


def check_scenario(ctx, names, mode, is_async, schedules):
    loaded = get_loaded(is_async)
    runner = run_async_schedule if is_async else run_thread_schedule
    expect = [alone(loaded, n, is_async) for n in names]
    active = getattr(ctx, "active_known", set())
    if "D11" in active and mode.endswith("copied-after"):
        ctx.excluded_by_known += len(schedules)
        return
    for sch in schedules:
        # a module of its own for every schedule: state that a call leaves on the contract lists must not carry over
        # from the 'alone' runs or from an earlier schedule
        fresh = RUN.Loaded(program(is_async))
        try:
            outs, overlap = runner(fresh, names, mode, list(sch))
        finally:
            fresh.close()
        case = {"names": list(names), "mode": mode, "async": is_async, "schedule": list(sch)}
        violating = any(":" in n and not n.endswith(":ok") for n in names)
        nt = overlap and violating
        ctx.count("mode:" + mode)
        ctx.count("driver:" + ("asyncio-tasks" if is_async else "threads"))
        ctx.case(case, nt, sample=case)
        diffs = [i for i, (e, o) in enumerate(zip(expect, outs)) if e != o]
        # every difference is "the invariant of instance 0 was not checked for m:inv" (finding D29)?
        case["d29_only"] = bool(diffs) and mode == "copied-mid-call" and all(
            names[i] in ("m:inv", "s:inv") and outs[i][0] == "ret" for i in diffs)
        for i, (e, o) in enumerate(zip(expect, outs)):
            if e != o and "D29" in active and mode == "copied-mid-call" and names[i] in ("m:inv", "s:inv") and o[0] == "ret":
                ctx.excluded_by_known += 1  # finding D29, excluded by construction while its reproducer still fails
                continue
            if e != o:
                ctx.fail("verdict-depends-on-concurrency|mode:%s|%s|%s" % (mode, "async" if is_async else "threads",
                                                                          names[i]), case,
                         "calls %r, mode %s, %s, schedule %r: call %d (%s) alone gives %r, under this schedule %r" % (
                             names, mode, "emulated asyncio tasks" if is_async else "threads", list(sch), i, names[i], e, o))
                return


SEGMENTS = {"g0:ok": 4, "g0:post": 4, "reinit": 1, "s:ok": 1, "s:inv": 1, "f0:ok": 5, "f0:pre": 3, "f0:pre6": 2, "f0:post": 5, "m:ok": 3, "m:pre": 2, "m:inv": 1, "n:ok": 3, "n:post": 3, "n1:post": 3,
            "new": 1, "new:inv": 1}


# threads are also switched inside the (synchronous) invariant: one more segment per evaluation
SEGMENTS_THREADS = dict(SEGMENTS, **{"m:ok": 5, "m:pre": 3, "m:inv": 2, "n:ok": 5, "n:post": 5, "n1:post": 5, "new": 3, "new:inv": 3, "reinit": 3, "s:ok": 3, "s:inv": 2})


def segments(name, is_async):
    return (SEGMENTS if is_async else SEGMENTS_THREADS)[name]


@st.composite
def st_scenario(draw):
    n = draw(st.integers(2, 3))
    names = [draw(st.sampled_from(sorted(CALLS))) for _ in range(n)]
    mode = draw(st.sampled_from(MODES))
    is_async = draw(st.integers(0, 3)) != 0
    if not is_async and mode in ASYNC_ONLY_MODES:
        mode = "copied-after"
    return names, mode, is_async


FIXED = [
    (["f0:ok", "f0:pre"], True), (["f0:pre", "f0:ok"], True), (["f0:pre", "f0:pre"], True), (["f0:pre6", "f0:pre"], True), (["f0:pre6", "f0:pre6"], True), (["f0:pre", "f0:pre6"], True),
    (["f0:pre", "f0:pre"], False), (["f0:pre6", "f0:pre6"], False), (["f0:post", "f0:ok"], True), (["f0:ok", "f0:post"], True),
    (["g0:ok", "g0:ok"], True), (["g0:post", "g0:ok"], True), (["g0:ok", "g0:post"], False), (["g0:ok", "g0:ok"], False),
    (["m:ok", "n:post"], True), (["m:inv", "n:ok"], True), (["m:ok", "m:pre"], True), (["n:ok", "n1:post"], True),
    (["new:inv", "m:ok"], True), (["f0:ok", "f0:pre"], False), (["m:ok", "n:post"], False), (["f0:post", "f0:ok"], False),
    # one thread is inside the invariant's condition (of the same or of another object) when the other one's is due
    (["m:ok", "m:inv"], False), (["n1:post", "m:inv"], False), (["new", "m:inv"], False), (["m:ok", "new:inv"], False),
    # the constructor of the shared object is in flight in one thread while another thread uses the object
    (["reinit", "m:inv"], False), (["reinit", "n:post"], False), (["reinit", "m:pre"], False),
    # a sync method of the object whose coroutine method is suspended in another task
    (["m:ok", "s:inv"], True), (["n:ok", "s:inv"], True), (["n:post", "s:ok"], True), (["m:ok", "s:inv"], False),
]


def run(ctx, tier, seed, shard, nshards):
    # (1) fixed scenarios x all modes x ALL interleavings
    for names, is_async in FIXED:
        counts = [segments(n, is_async) for n in names]
        for mode in MODES:
            if not is_async and mode in ASYNC_ONLY_MODES:
                continue
            schedules = interleavings(counts)
            if not is_async:
                schedules = schedules[:: max(1, len(schedules) // (12 if tier == "quick" else 70))]
            check_scenario(ctx, names, mode, is_async, schedules)
    ctx.exhaustive = True
    ctx.extra["exhaustive_scope"] = "all interleavings of the fixed two-task scenarios (emulated asyncio tasks); sampled for threads"
    # (2) drawn scenarios (2..3 tasks)
    n = 25 if tier == "quick" else 300

    @given(st_scenario(), st.data())
    def test(sc, data):
        names, mode, is_async = sc
        counts = [segments(x, is_async) for x in names]
        alls = interleavings([min(c, 3) for c in counts]) if len(names) == 2 else None
        if alls is None or len(alls) > 80:
            total = sum(counts)
            alls = [tuple(data.draw(st.permutations([i for i, c in enumerate(counts) for _ in range(c)]))) for _ in range(
                10 if is_async else 4)]
        elif not is_async:
            alls = alls[:: max(1, len(alls) // 6)]
        check_scenario(ctx, names, mode, is_async, alls)

    core.run_hypothesis(test, seed, n)
    for l in _loaded.values():
        l.close()
    _loaded.clear()


def replay(ctx, case):
    loaded = get_loaded(case["async"])
    check_scenario(ctx, case["names"], case["mode"], case["async"], [case["schedule"]])
    for l in _loaded.values():
        l.close()
    _loaded.clear()
