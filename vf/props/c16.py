"""C16 - deterministic evaluation order and first-failure reporting: the WHOLE event trace equals the reference."""
from hypothesis import strategies as st

from vf.progmodel import driver as D
from vf.props import _single as S

ID = "C16"
LEVEL = "exploration"
SHARDS = {"quick": 1, "thorough": 16}
RULE = ("case = (generated program: function or DBC hierarchy with one member kind, stacks of require/ensure/snapshot/"
        "foreign decorators, invariants, __init__ contracts; one call and one attribute assignment per class of the "
        "hierarchy; one truth assignment "
        "out of ALL 2^n for n<=6 conditions, sampled above). non-trivial = at least two conditions falsy at once, or "
        ">=2 precondition groups tried; distinct = hash(program, ops, assignment). On async callables every condition and "
        "capture is independently a plain function, a coroutine function, or a function returning a coroutine / awaitable "
        "object / done Future (mixed kinds within one stack).")
ASSUMPTIONS = ["reference interpreter transcribed from C01/C02/C03/C04/C08/C16 statements (vf/progmodel/ref.py)",
               "conditions are named functions or in-decorator lambdas that only log and answer from the truth table",
               "snapshots in diamonds are declared below the join only (duplicate-name rejection is unspecified there)"]

DECO_KW = dict(n_pre=(0, 3), n_post=(0, 3), n_snap=(0, 2), n_wraps=(0, 1),
               err_forms=("default", "default", "class", "instance", "lambda", "def"))
HIER_KW = dict(n_classes=(1, 4), dag=True, with_invs=True, with_init=True)
JUDGE = S.judge_c16
KNOWN = {}


def nontrivial(case, truth, res, mask, n):
    falsy = n - bin(mask).count("1")
    return falsy >= 2 or any(len(c.get("bases", [])) >= 1 for c in case["program"].get("classes", [])) and falsy >= 1


@st.composite
def strategy(draw):
    case = draw(st.one_of(D.st_function_case(DECO_KW), D.st_class_case(DECO_KW, HIER_KW), D.st_class_case(DECO_KW, HIER_KW)))
    # classes with invariants: an attribute assignment from outside after the member call (before-phase, body,
    # after-phase of the attribute-set invariants, in declaration order)
    ops = []
    for op in case["ops"]:
        ops.append(op)
    for op in list(case["ops"]):
        if op["op"] == "new" and any(i for c in case["program"].get("classes", []) for i in c.get("invs", [])):
            ops.append({"op": "setattr", "k": op["k"]})
    case["ops"] = ops
    # on async callables the conditions and captures of one stack come in mixed kinds - plain functions, coroutine
    # functions, functions returning a coroutine / an awaitable object / a done Future: the order is that of the stack
    p = case["program"]
    for f in list(p.get("funcs", [])) + [m for c in p.get("classes", []) for m in c.get("members", [])]:
        if f.get("async"):
            for d in f.get("decos", []):
                if d["t"] in ("require", "ensure", "snapshot") and not d.get("made") and draw(st.integers(0, 1)) == 0:
                    d["flavor"] = draw(st.sampled_from(["corofunc", "corofunc", "ret_coro", "awaitable"] + (
                        ["future"] if d["t"] != "snapshot" else [])))
                    d["lam"] = False
    return case


def exclude(ctx, case, model):
    return None


def recreated_class_cases(ctx, only=None):
    """A class that passes through the meta-class TWICE - what @dataclasses.dataclass(slots=True) does, or any class
    decorator that rebuilds the class with type(cls)(name, bases, dict) - on a single inheritance path: every condition is
    still called at most once per check, inherited ones first."""
    import dataclasses

    import icontract

    for how in ("dataclass(slots=True)", "rebuilt by a class decorator", "rebuilt twice"):
        for member in ("method", "property"):
            if only and only != [how, member]:
                continue
            log = []

            def c(tag, value=True):
                def cond(**kw):
                    log.append(tag)
                    return value
                return cond

            def mk(tag):
                def f(self, x=1):
                    log.append(tag + "-body")
                    return x
                return f

            def named(tag, value, param):
                # (named functions: a lambda outside a decorator has no source to build a message from)
                def cond_self(self):
                    log.append(tag)
                    return value

                def cond_result(result):
                    log.append(tag)
                    return value
                return cond_self if param == "self" else cond_result

            def contracted(f, who):
                f = icontract.ensure(named(who + "-post", True, "result"))(f)
                f = icontract.snapshot(named(who + "-cap", 0, "self"), name=who + "_snap")(f)
                return icontract.require(named(who + "-pre", who != "base", "self"))(f)

            def rebuild(cls):
                ns = {k: v for k, v in vars(cls).items() if k not in ("__dict__", "__weakref__")}
                return type(cls)(cls.__name__, cls.__bases__, ns)

            label = "%s, %s" % (how, member)
            try:
                wrap = (lambda f: property(f)) if member == "property" else (lambda f: f)
                Base = type(icontract.DBC)("Base", (icontract.DBC,), {"f": wrap(contracted(mk("base"), "base"))})
                Base = icontract.invariant(named("inv", True, "self"))(Base)
                ns = {"f": wrap(contracted(mk("sub"), "sub")), "__annotations__": {"v": int}, "v": 0}
                Sub = type(icontract.DBC)("Sub", (Base,), ns)
                if how.startswith("dataclass"):
                    Sub = dataclasses.dataclass(slots=True)(Sub)
                else:
                    Sub = rebuild(Sub)
                    if how.endswith("twice"):
                        Sub = rebuild(Sub)
                o = Sub()
                del log[:]
                r = o.f if member == "property" else o.f(1)
                got = list(log)
            except BaseException as e:  # noqa
                got = ("failed", type(e).__name__, str(e)[:140])
            # the base group fails, the sub-class' own group holds; then captures and postconditions, inherited first
            want = ["inv", "base-pre", "sub-pre", "base-cap", "sub-cap", "sub-body", "base-post", "sub-post", "inv"]
            ctx.case(["recreated-class", how, member], True, sample={"directed": label, "evaluated": str(got)[:160]})
            ctx.count("directed:recreated-class-cases")
            if got != want:
                ctx.fail("recreated-class|%s|%s" % (how.split("(")[0].split(" ")[0], member), {"recreated_class": [how, member]},
                         "%s: one call evaluated %r, expected %r" % (label, got, want))


def shared_decorator_order(ctx, only=None):
    """Decorator OBJECTS shared by the base's member and the override (`positive = icontract.require(...)` applied to
    both, anywhere in the stacks): the walk is still the one of the statement - the inherited group first, each group from the
    decorator nearest the function outwards, a group is left at its first falsy condition, the walk ends at the first group
    that holds, and the error is that of the first falsy condition of the last group tried. Enumerated: base stack (1..2 of
    3 shared objects, ordered) x override stack (1..2, ordered) x all 8 truth assignments; the trace of evaluations and the
    description in the error are compared."""
    import itertools
    import icontract

    T = [True, True, True]
    log = []

    def mk(i):
        ns = {"T": T, "log": log}
        exec("def cond_%d(x):\n    log.append(%d)\n    return T[%d]" % (i, i, i), ns)
        return ns["cond_%d" % i]

    decos = [icontract.require(mk(i), "shared-%d" % i) for i in range(3)]
    stacks = [p for r in (1, 2) for p in itertools.permutations(range(3), r)]
    for bstack, sstack in itertools.product(stacks, stacks):
        key = [list(bstack), list(sstack)]
        if only is not None and only != key:
            continue

        def bm(self, x):
            return x

        def sm(self, x):
            log.append("body")
            return x

        for i in bstack:  # applied bottom-up: the first one is nearest the function
            bm = decos[i](bm)
        for i in sstack:
            sm = decos[i](sm)
        Base = type(icontract.DBC)("Base", (icontract.DBC,), {"m": bm})
        Sub = type(icontract.DBC)("Sub", (Base,), {"m": sm})
        bad = []
        for truth in itertools.product((True, False), repeat=3):
            T[:] = truth
            want_log, want = [], None
            groups = [bstack] if list(bstack) == list(sstack) else [bstack, sstack]  # the very same group is listed once
            for group in groups:
                falsy = None
                for i in group:
                    want_log.append(i)
                    if not truth[i]:
                        falsy = i
                        break
                if falsy is None:
                    want = "accepted"
                    break
            if want is None:
                want = "shared-%d" % falsy
            else:
                want_log.append("body")
            del log[:]
            try:
                Sub().m(1)
                got = "accepted"
            except icontract.ViolationError as e:
                got = next((d for d in ("shared-0", "shared-1", "shared-2") if d in str(e)), "?")
            except BaseException as e:  # noqa
                got = "%s: %s" % (type(e).__name__, e)
            if got != want or log != want_log:
                bad.append((truth, want, want_log, got, list(log)))
        T[:] = [True] * 3
        ctx.case(["shared-decorator-order"] + key, bool(set(bstack) & set(sstack)),
                 sample={"directed": "shared require objects: base stack %r, override stack %r (nearest the function first)" % (bstack, sstack)})
        ctx.count("directed:shared-decorator-order")
        if bad:
            ctx.fail("shared-decorator-order|%s" % ("overlap" if set(bstack) & set(sstack) else "disjoint"), {"shared_decorator_order": key},
                     "require objects shared among functions, base stack %r, override stack %r: (truth, expected error/outcome, expected "
                     "evaluations, got, evaluated) %r" % (bstack, sstack, bad[:3]))


def posthoc_on_invariant_class(ctx, only=None):
    """A contract attached to a method AFTER its class was given invariants (`C.g = icontract.require(...)(C.g)`; the method
    is already wrapped with invariant checks and has / has no contracts of its own): the phases keep their order -
    invariants-before, preconditions, body, postconditions, invariants-after. Enumerated: target {method without contracts,
    method with a contract, __init__} x what is attached {require, ensure, both} x sync/async."""
    import itertools
    import icontract
    from vf.progmodel.run import drive

    for target, what, is_async in itertools.product(("bare-method", "contracted-method", "init"), ("require", "ensure", "both"), (False, True)):
        if target == "init" and is_async:
            continue
        key = [target, what, is_async]
        if only is not None and only != key:
            continue
        log = []

        def inv(self):
            log.append("inv")
            return True

        def pre(x):
            log.append("pre")
            return True

        def post(result):
            log.append("post")
            return True

        def pre0(x):
            log.append("pre0")
            return True

        ns = {"icontract": icontract, "log": log, "inv": inv, "pre0": pre0}
        A = "async " if is_async else ""
        exec("\n".join([
            "@icontract.invariant(inv)",
            "class C:",
            "    def __init__(self, x=1):",
            "        log.append('body')",
            "    %sdef g(self, x):" % A,
            "        log.append('body')",
            "        return x",
            "    @icontract.require(pre0)",
            "    %sdef h(self, x):" % A,
            "        log.append('body')",
            "        return x",
        ]), ns)
        C = ns["C"]
        name = {"bare-method": "g", "contracted-method": "h", "init": "__init__"}[target]
        try:
            fn = getattr(C, name)
            if what in ("ensure", "both"):
                fn = icontract.ensure(post)(fn)
            if what in ("require", "both"):
                fn = icontract.require(pre)(fn)
            setattr(C, name, fn)
            if target == "init":
                del log[:]
                C()
                got = list(log)
            else:
                o = C()
                del log[:]
                r = getattr(o, name)(1)
                if is_async:
                    drive(r)
                got = list(log)
        except BaseException as e:  # noqa
            got = "%s: %s" % (type(e).__name__, str(e)[:100])
        pres = (["pre0"] if target == "contracted-method" else []) + (["pre"] if what in ("require", "both") else [])
        posts = ["post"] if what in ("ensure", "both") else []
        want = ([] if target == "init" else ["inv"]) + pres + ["body"] + posts + ["inv"]
        label = "%s attached to %s%s after the class got its invariant" % (what, "async " if is_async else "", target)
        ctx.case(["posthoc-on-invariant-class"] + key, True, sample={"directed": label, "events": got})
        ctx.count("directed:posthoc-on-invariant-class")
        if got != want:
            ctx.fail("posthoc-on-invariant-class|%s|%s" % (target, what), {"posthoc_on_invariant_class": key},
                     "%s: expected the events %r, got %r" % (label, want, got))


def run(ctx, tier, seed, shard, nshards):
    n = 400 if tier == "quick" else 2000
    D.explore(ctx, seed, n, strategy(), JUDGE, limit_all=6 if tier == "quick" else 9, n_sample=24,
              nontrivial=nontrivial, exclude=exclude)
    if shard == 0:
        recreated_class_cases(ctx)
        shared_decorator_order(ctx)
        posthoc_on_invariant_class(ctx)


def replay(ctx, case):
    if case.get("posthoc_on_invariant_class"):
        before = ctx.evaluations
        posthoc_on_invariant_class(ctx, only=case["posthoc_on_invariant_class"])
        ctx.evaluations = before + 1
        return
    if case.get("shared_decorator_order"):
        before = ctx.evaluations
        shared_decorator_order(ctx, only=case["shared_decorator_order"])
        ctx.evaluations = before + 1
        return
    if case.get("recreated_class"):
        before = ctx.evaluations
        recreated_class_cases(ctx, only=case["recreated_class"])
        ctx.evaluations = before + 1
        return
    D.replay_case(ctx, case, JUDGE)
