"""C16 - deterministic evaluation order and first-failure reporting: the WHOLE event trace equals the reference."""
from hypothesis import strategies as st

from vf.progmodel import driver as D
from vf.props import _single as S

ID = "C16"
LEVEL = "exploration"
SHARDS = {"quick": 1, "thorough": 16}
RULE = ("case = (generated program: function or DBC hierarchy with one member kind, stacks of require/ensure/snapshot/"
        "foreign decorators, invariants, __init__ contracts; one call and one attribute assignment per class of the "
        "hierarchy; one truth assignment "
        "out of ALL 2^n for n<=6 conditions, sampled above). non-trivial = at least two conditions falsy at once, or "
        ">=2 precondition groups tried; distinct = hash(program, ops, assignment).")
ASSUMPTIONS = ["reference interpreter transcribed from C01/C02/C03/C04/C08/C16 statements (vf/progmodel/ref.py)",
               "conditions are named functions or in-decorator lambdas that only log and answer from the truth table",
               "snapshots in diamonds are declared below the join only (duplicate-name rejection is unspecified there)"]

DECO_KW = dict(n_pre=(0, 3), n_post=(0, 3), n_snap=(0, 2), n_wraps=(0, 1),
               err_forms=("default", "default", "class", "instance", "lambda", "def"))
HIER_KW = dict(n_classes=(1, 4), dag=True, with_invs=True, with_init=True)
JUDGE = S.judge_c16
KNOWN = {}


def nontrivial(case, truth, res, mask, n):
    falsy = n - bin(mask).count("1")
    return falsy >= 2 or any(len(c.get("bases", [])) >= 1 for c in case["program"].get("classes", [])) and falsy >= 1


@st.composite
def strategy(draw):
    case = draw(st.one_of(D.st_function_case(DECO_KW), D.st_class_case(DECO_KW, HIER_KW), D.st_class_case(DECO_KW, HIER_KW)))
    # classes with invariants: an attribute assignment from outside after the member call (before-phase, body,
    # after-phase of the attribute-set invariants, in declaration order)
    ops = []
    for op in case["ops"]:
        ops.append(op)
    for op in list(case["ops"]):
        if op["op"] == "new" and any(i for c in case["program"].get("classes", []) for i in c.get("invs", [])):
            ops.append({"op": "setattr", "k": op["k"]})
    case["ops"] = ops
    return case


def exclude(ctx, case, model):
    return None


def run(ctx, tier, seed, shard, nshards):
    n = 400 if tier == "quick" else 2000
    D.explore(ctx, seed, n, strategy(), JUDGE, limit_all=6 if tier == "quick" else 9, n_sample=24,
              nontrivial=nontrivial, exclude=exclude)


def replay(ctx, case):
    D.replay_case(ctx, case, JUDGE)
