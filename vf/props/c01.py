"""C01 - see DESIGN.md section 4/C01. Built on progmodel; oracle projection = _single.judge_c01."""
from hypothesis import strategies as st

from vf.progmodel import driver as D
from vf.props import _single as S

ID = "C01"
LEVEL = "exploration"
SHARDS = {"quick": 1, "thorough": 16}
DECO_KW = dict(n_pre=(0, 4), n_post=(0, 2), n_snap=(0, 2), n_wraps=(0, 2),
               err_forms=("default", "default", "class", "baseclass", "instance", "lambda", "def", "method"))
HIER_KW = dict(n_classes=(1, 4), dag=True, multi_root=True, with_invs=True, with_init=True, with_new=True)
JUDGE = S.judge_c01
KNOWN = {}


HIER_KW_WIDE = dict(n_classes=(3, 6), dag=True, multi_root=True, with_invs=False, with_init=False)


@st.composite
def strategy(draw):
    case = draw(st.one_of(D.st_function_case(DECO_KW), D.st_class_case(DECO_KW, HIER_KW), D.st_class_case(DECO_KW, HIER_KW),
                          D.st_class_case(dict(DECO_KW, n_pre=(0, 2), n_post=(0, 1), n_snap=(0, 0)), HIER_KW_WIDE)))
    # on async callables a precondition may deliver its verdict as any awaitable: coroutine function, sync function
    # returning a coroutine, an object with __await__, a done Future - the awaited value gates the call
    p = case["program"]
    for f in list(p.get("funcs", [])) + [m for c in p.get("classes", []) for m in c.get("members", [])]:
        if f.get("async"):
            for d in f.get("decos", []):
                if d["t"] == "require" and not d.get("made") and draw(st.integers(0, 2)) == 0:
                    d["flavor"] = draw(st.sampled_from(["corofunc", "ret_coro", "awaitable", "future"]))
                    d["lam"] = False
    return case


def exclude(ctx, case, model):
    if D.d23_shape(case["program"]):
        return "D23"  # open finding recorded under C14 (library-made __new__ shadows another base's __new__)
    return None


def run(ctx, tier, seed, shard, nshards):
    n = N_QUICK if tier == "quick" else N_THOROUGH
    D.explore(ctx, seed, n, strategy(), JUDGE, limit_all=6 if tier == "quick" else 9, n_sample=24,
              nontrivial=nontrivial, exclude=exclude)
    if shard == 0:
        directed(ctx)


def replay(ctx, case):
    if case.get("directed"):
        return directed(ctx, only=case["directed"])
    D.replay_case(ctx, case, JUDGE)

N_QUICK, N_THOROUGH = 400, 2000
RULE = ("case = (generated program: plain function or DBC chain of 1..3 classes with one member of a drawn kind "
        "(method/static/class/property get/set/del, sync or async) plus optional __init__/__new__ contracts, stacks of "
        "0..4 preconditions with postconditions/snapshots/invariants/foreign decorators around them; one call per "
        "class; one truth assignment out of ALL 2^n (n<=6; sampled above)). Oracle: body entered iff DNF(truth); when "
        "rejected: no capture/postcondition event and the error of a falsy condition of the call. non-trivial = a "
        "call with >=2 precondition conditions of which at least one is falsy, or >=2 groups; distinct = "
        "hash(program, ops, assignment). Plus enumerated matrices: call shapes; the two-base matrix of C04; a recursion "
        "matrix (the body calls the callable again directly / through another function / on another or the same "
        "instance, depth 4 x forbidden-argument subsets x with/without postcondition x sync/async): each nested call's "
        "body runs iff its own precondition holds; adoption histories (a function already called stand-alone or through "
        "a first class is adopted as the override of a DBC member: 2 x 2 x 2 x 2 set-ups x 4 truth pairs).")
ASSUMPTIONS = ["which falsy condition's error surfaces is C16's business; C01 accepts the error of any falsy one",
               "operations rejected by a falsy invariant before the call are not judged here (C03)"]


def nontrivial(case, truth, res, mask, n):
    if res.ref is None:
        return False
    m = res.ref.m
    for op in res.ops:
        eff = S.op_eff(m, res, op)
        if eff is None:
            continue
        conds = [d for g in eff["pre"] for d in g]
        if len(eff["pre"]) >= 2:
            return True
        if len(conds) >= 2 and any(any(not S.is_truthy(code_) for code_ in (truth.get(d["cid"]) or ["T"])) for d in conds):
            return True
    return False


def directed_shapes(ctx):
    """Preconditions judge the values the body receives also for the call shapes of C05 that are easy to get wrong:
    a keyword named like a positional-only parameter (absorbed by **kwargs), positionals beyond the named parameters,
    keyword-only parameters, defaults - as function and method, def and async def."""
    import icontract
    from vf.progmodel.run import drive

    entered = []

    def build(is_async, as_method):
        src = []
        ind = "    " if as_method else ""
        if as_method:
            src.append("class K:")
        for name, params in (("a", "x, /, **kw"), ("b", "x, *rest, k=0"), ("c", "x=7, /, y=8, *, k=9, **kw")):
            p = ("self, " if as_method else "") + params
            src.append("%s@icontract.require(positive, 'x must be positive')" % ind)
            src.append("%s%sdef %s(%s):" % (ind, "async " if is_async else "", name, p))
            src.append("%s    entered.append(x)" % ind)
            src.append("%s    return x" % ind)
        def positive(x):
            return x is not None and x > 0

        g = {"icontract": icontract, "entered": entered, "positive": positive}
        exec("\n".join(src), g)
        return g["K"]() if as_method else type("NS", (), {k: staticmethod(g[k]) for k in "abc"})

    calls = [("a", (1,), {"x": -5}, True), ("a", (-1,), {"x": 5}, False), ("a", (1,), {"x": -5, "z": 0}, True),
             ("b", (1, -2, -3), {}, True), ("b", (-1, 2, 3), {"k": 4}, False), ("b", (2,), {"k": -1}, True),
             ("c", (), {}, True), ("c", (-1,), {"x": 3}, False), ("c", (), {"x": -3}, True), ("c", (5, 6), {"k": -1, "y2": 0}, True),
             # None passed explicitly where the parameter has another default: the body receives None, so does the condition
             ("c", (None,), {}, False), ("c", (None, 1), {"k": None}, False), ("c", (3, None), {"k": None}, True),
             ("b", (None,), {}, False), ("b", (4, None), {"k": None}, True)]
    for is_async in (False, True):
        for as_method in (False, True):
            obj = build(is_async, as_method)
            for i, (fname, args, kwargs, accept) in enumerate(calls):
                label = "%s%s/%s%r%r" % ("async " if is_async else "", "method" if as_method else "function", fname, args, kwargs)
                del entered[:]
                try:
                    r = getattr(obj, fname)(*args, **kwargs)
                    if is_async:
                        r = drive(r)
                    got = "accepted"
                except icontract.ViolationError:
                    got = "rejected"
                except BaseException as e:  # noqa
                    got = "%s: %s" % (type(e).__name__, e)
                ctx.case(["directed-shape", is_async, as_method, i], True, sample={"directed": label, "expected": "accepted" if accept else "rejected"})
                want = "accepted" if accept else "rejected"
                if got != want or (accept and len(entered) != 1) or (not accept and entered):
                    ctx.fail("directed-shape|%s|%s" % ("async" if is_async else "sync", "method" if as_method else "function"),
                             {"directed": "shapes"}, "%s: the precondition x > 0 judged on the value the body receives says %s; the "
                             "call was %s (bodies entered with x = %r)" % (label, want, got, entered))


def recursion_matrix(ctx):
    """A callable with a precondition whose BODY calls it again (directly, through another function, on another instance):
    every such call is a call - its body runs iff its precondition holds. Enumerated: depth 4 x which argument values are
    forbidden x with/without a postcondition x sync/async x route."""
    import itertools
    import icontract
    from vf.progmodel.run import drive

    for is_async, with_post, route in itertools.product((False, True), (False, True), ("direct", "mutual", "other-instance", "same-instance")):
        for bad in itertools.chain.from_iterable(itertools.combinations(range(4), r) for r in range(0, 3)):
            log = []

            def ok(x):
                log.append(("pre", x))
                return x not in bad

            def call(fn, *a):
                r = fn(*a)
                return drive(r) if is_async else r

            def descend(fn, x, *a):
                if x > 0:
                    try:
                        call(fn, *a)
                    except icontract.ViolationError:
                        log.append(("rejected", x - 1))

            post = icontract.ensure(lambda result: True) if with_post else (lambda f: f)
            if route in ("direct", "mutual"):
                if is_async:
                    @icontract.require(ok)
                    @post
                    async def f(x):
                        log.append(("body", x))
                        descend(g if route == "mutual" else f, x, x - 1)

                    async def g(x):
                        return await f(x)
                else:
                    @icontract.require(ok)
                    @post
                    def f(x):
                        log.append(("body", x))
                        descend(g if route == "mutual" else f, x, x - 1)

                    def g(x):
                        return f(x)
                top = lambda: call(f, 3)  # noqa
            else:
                if is_async:
                    class K:
                        def __init__(self, child):
                            self.child = child

                        @icontract.require(lambda x: ok(x))
                        @post
                        async def m(self, x):
                            log.append(("body", x))
                            descend((self.child or self).m, x, x - 1)
                else:
                    class K:
                        def __init__(self, child):
                            self.child = child

                        @icontract.require(lambda x: ok(x))
                        @post
                        def m(self, x):
                            log.append(("body", x))
                            descend((self.child or self).m, x, x - 1)
                node = K(K(K(K(None)))) if route == "other-instance" else K(None)
                top = lambda: call(node.m, 3)  # noqa
            try:
                top()
            except icontract.ViolationError:
                log.append(("rejected", 3))
            want = []
            for x in (3, 2, 1, 0):
                want.append(("pre", x))
                if x in bad:
                    want.append(("rejected", x))
                    break
                want.append(("body", x))
            label = "%s %s recursion%s, forbidden arguments %r" % ("async" if is_async else "sync", route,
                                                                  " with a postcondition" if with_post else "", list(bad))
            ctx.case(["recursion", is_async, with_post, route, bad], bool(bad) and 3 not in bad,
                     sample={"directed": label, "evaluated": [list(e) for e in log]})
            ctx.count("directed:recursion-matrix")
            # a lambda condition that fails is evaluated once more for the message: compare without repeated entries
            got = [e for i, e in enumerate(log) if i == 0 or e != log[i - 1]]
            if got != want:
                ctx.fail("recursion|%s|%s|%s" % ("async" if is_async else "sync", route, "post" if with_post else "nopost"),
                         {"directed": "recursion"}, "%s: evaluated %r, expected %r" % (label, got, want))


def adoption_history(ctx):
    """Histories: a function with (or without) its own precondition has ALREADY been called - stand-alone, or through a
    first class that uses it - when a DBC class adopts it as the override of a member (`class D(B): m = f`). From then on
    the call through D is gated by (inherited group) OR (own group), whatever happened before. Enumerated: sync/async x
    own precondition or none x called before adoption or not x one adopter or two sibling adopters of different bases x
    the four truth combinations."""
    import itertools
    import icontract
    from vf.progmodel.run import drive

    for is_async, own_pre, warm, siblings in itertools.product((False, True), (True, False), (True, False), (False, True)):
        T = {"base": True, "other": True, "own": True}
        entered = []

        class Base(icontract.DBC):
            @icontract.require(lambda x: T["base"], "base-pre")
            def m(self, x):
                return x

        class Other(icontract.DBC):
            @icontract.require(lambda x: T["other"], "other-pre")
            def m(self, x):
                return x

        if is_async:
            async def f(self, x):
                entered.append(x)
                return x
        else:
            def f(self, x):
                entered.append(x)
                return x
        if own_pre:
            def own_ok(x):  # (a lambda stated outside a decorator is declared unsupported by the library's message builder)
                return T["own"]

            f = icontract.require(own_ok, "own-pre")(f)

        def call(fn, *a):
            r = fn(*a)
            return drive(r) if is_async else r

        if warm:
            call(f, None, 1)  # the function is used stand-alone before it becomes a method
        classes = []
        if siblings:
            First = type(Base)("First", (Other,), {"m": f})
            if warm:
                call(First().m, 1)
            classes.append((First, "other"))
        D_ = type(Base)("D_", (Base,), {"m": f})
        classes.append((D_, "base"))
        label = "%s, own precondition: %s, called before adoption: %s, adopted by %d classes" % (
            "async" if is_async else "sync", own_pre, warm, len(classes))
        for cls, key in classes:
            for tb, to in itertools.product((True, False), repeat=2):
                # one function object shared by two classes carries ONE list of groups (C17's open finding D45 is about
                # that); both bases' groups get the same verdict here so that the expectation does not depend on it
                T.update(base=tb, other=tb)
                T["own"] = to
                del entered[:]
                try:
                    call(cls().m, 5)
                    got = "accepted"
                except icontract.ViolationError:
                    got = "rejected"
                except BaseException as e:  # noqa
                    got = "%s: %s" % (type(e).__name__, e)
                # without an own precondition the override has nothing to weaken with: the inherited group alone decides
                accept = tb or (own_pre and to)
                want = "accepted" if accept else "rejected"
                ctx.case(["adoption", is_async, own_pre, warm, siblings, cls.__name__, tb, to], warm and not tb,
                         sample={"directed": "adoption: " + label, "class": cls.__name__, "inherited holds": tb, "own holds": to})
                ctx.count("directed:adoption-history")
                if got != want or (accept and entered != [5]) or (not accept and entered):
                    ctx.fail("adopted-function|%s|%s|%s" % ("async" if is_async else "sync", "warm" if warm else "cold",
                                                            "siblings" if siblings else "single"),
                             {"directed": "adoption"}, "%s; through %s with inherited group %s and own group %s: expected %s, got %s "
                             "(bodies entered: %r)" % (label, cls.__name__, tb, to if own_pre else "absent", want, got, entered))


def concurrent_history(ctx):
    """Two callers of one function in contexts COPIED from a parent context that has (or has not) already executed contracted
    code - what asyncio does for every task and `copy_context().run` does in worker threads: while the first caller is
    suspended inside its precondition the second caller arrives with an argument the precondition forbids. Its body must
    not run. Emulated tasks (each step of a coroutine runs in its own Context, as asyncio does) and real threads."""
    import contextvars
    import threading
    import icontract
    from vf import vrt

    for driver in ("tasks", "threads"):
        for history in (False, True):
            for first_ok in (True, False):
                entered = []
                if driver == "tasks":
                    async def pre(x):
                        await vrt.Yield("in-pre")
                        return x > 0

                    @icontract.require(pre)
                    async def f(x):
                        entered.append(x)
                        return x

                    @icontract.require(lambda: True)
                    async def warm():
                        return 0

                    parent = contextvars.copy_context()
                    if history:
                        def run_warm():
                            c = warm()
                            try:
                                c.send(None)
                            except StopIteration:
                                pass
                        parent.run(run_warm)
                    c1, c2 = parent.run(contextvars.copy_context), parent.run(contextvars.copy_context)
                    a1, a2 = (1 if first_ok else -1), -2
                    co1, co2 = f(a1), f(a2)
                    outs = {}

                    def step(name, c, co):
                        try:
                            c.run(co.send, None)
                            return False
                        except StopIteration as e:
                            outs[name] = "returned %r" % (e.value,)
                        except icontract.ViolationError:
                            outs[name] = "rejected"
                        except BaseException as e:  # noqa
                            outs[name] = "%s: %s" % (type(e).__name__, e)
                        return True

                    step("first", c1, co1)   # suspended inside its precondition
                    done2 = step("second", c2, co2)
                    while not done2:
                        done2 = step("second", c2, co2)
                    while not step("first", c1, co1):
                        pass
                else:
                    gate, arrived = threading.Event(), threading.Event()

                    def pre(x):
                        if x in (1, -1):  # the first caller waits inside its precondition
                            arrived.set()
                            gate.wait(10)
                        return x > 0

                    @icontract.require(pre)
                    def f(x):
                        entered.append(x)
                        return x

                    @icontract.require(lambda: True)
                    def warm():
                        return 0

                    parent = contextvars.copy_context()
                    if history:
                        parent.run(warm)
                    c1, c2 = parent.run(contextvars.copy_context), parent.run(contextvars.copy_context)
                    a1, a2 = (1 if first_ok else -1), -2
                    outs = {}

                    def call(name, c, a):
                        try:
                            outs[name] = "returned %r" % (c.run(f, a),)
                        except icontract.ViolationError:
                            outs[name] = "rejected"
                        except BaseException as e:  # noqa
                            outs[name] = "%s: %s" % (type(e).__name__, e)

                    t1 = threading.Thread(target=call, args=("first", c1, a1))
                    t1.start()
                    arrived.wait(10)
                    t2 = threading.Thread(target=call, args=("second", c2, a2))
                    t2.start()
                    t2.join(10)
                    gate.set()
                    t1.join(10)
                want = {"first": "returned 1" if first_ok else "rejected", "second": "rejected"}
                label = "%s, parent context %s contracted code before the copies, first caller %s" % (
                    driver, "ran" if history else "ran no", "accepted" if first_ok else "rejected")
                ctx.case(["concurrent-history", driver, history, first_ok], True, sample={"directed": label, "outcomes": dict(outs)})
                ctx.count("directed:concurrent-history")
                if outs != want or sorted(entered) != ([1] if first_ok else []):
                    ctx.fail("concurrent-history|%s|%s" % (driver, "history" if history else "fresh"), {"directed": "concurrent-history"},
                             "%s: expected %r with the body entered for %r only; got %r, bodies entered with %r" % (
                                 label, want, [1] if first_ok else [], outs, entered))


def directed(ctx, only=None):
    """The enumerated two-base matrix of C04 (who provides the member with/without preconditions, in both orders),
    judged with C01's projection; plus the directed call shapes."""
    from vf.props import c04

    directed_shapes(ctx)
    recursion_matrix(ctx)
    adoption_history(ctx)
    concurrent_history(ctx)
    for case in c04.multi_base_matrix():
        D.run_one(ctx, case, JUDGE, nontrivial=nontrivial)
    for case in c04.diamond_matrix():  # which arm's override (and precondition) the bottom class gets
        D.run_one(ctx, case, JUDGE, nontrivial=nontrivial)
    for case in c04.gap_matrix():  # the ancestor's precondition reaches an override across classes that do not define the member
        D.run_one(ctx, case, JUDGE, nontrivial=nontrivial)
