"""C01 - see DESIGN.md section 4/C01. Built on progmodel; oracle projection = _single.judge_c01."""
from hypothesis import strategies as st

from vf.progmodel import driver as D
from vf.props import _single as S

ID = "C01"
LEVEL = "exploration"
SHARDS = {"quick": 1, "thorough": 16}
DECO_KW = dict(n_pre=(0, 4), n_post=(0, 2), n_snap=(0, 2), n_wraps=(0, 2),
               err_forms=("default", "default", "class", "baseclass", "instance", "lambda", "def", "method"))
HIER_KW = dict(n_classes=(1, 4), dag=True, multi_root=True, with_invs=True, with_init=True, with_new=True)
JUDGE = S.judge_c01
KNOWN = {}


HIER_KW_WIDE = dict(n_classes=(3, 6), dag=True, multi_root=True, with_invs=False, with_init=False)


@st.composite
def strategy(draw):
    case = draw(st.one_of(D.st_function_case(DECO_KW), D.st_class_case(DECO_KW, HIER_KW), D.st_class_case(DECO_KW, HIER_KW),
                          D.st_class_case(dict(DECO_KW, n_pre=(0, 2), n_post=(0, 1), n_snap=(0, 0)), HIER_KW_WIDE)))
    # on async callables a precondition may deliver its verdict as any awaitable: coroutine function, sync function
    # returning a coroutine, an object with __await__, a done Future - the awaited value gates the call
    p = case["program"]
    for f in list(p.get("funcs", [])) + [m for c in p.get("classes", []) for m in c.get("members", [])]:
        if f.get("async"):
            for d in f.get("decos", []):
                if d["t"] == "require" and not d.get("made") and draw(st.integers(0, 2)) == 0:
                    d["flavor"] = draw(st.sampled_from(["corofunc", "ret_coro", "awaitable", "future"]))
                    d["lam"] = False
    return case


def exclude(ctx, case, model):
    if D.d23_shape(case["program"]):
        return "D23"  # open finding recorded under C14 (library-made __new__ shadows another base's __new__)
    return None


def run(ctx, tier, seed, shard, nshards):
    n = N_QUICK if tier == "quick" else N_THOROUGH
    D.explore(ctx, seed, n, strategy(), JUDGE, limit_all=6 if tier == "quick" else 9, n_sample=24,
              nontrivial=nontrivial, exclude=exclude)
    if shard == 0:
        directed(ctx)


def replay(ctx, case):
    if case.get("directed"):
        return directed(ctx, only=case["directed"])
    D.replay_case(ctx, case, JUDGE)

N_QUICK, N_THOROUGH = 400, 2000
RULE = ("case = (generated program: plain function or DBC chain of 1..3 classes with one member of a drawn kind "
        "(method/static/class/property get/set/del, sync or async) plus optional __init__/__new__ contracts, stacks of "
        "0..4 preconditions with postconditions/snapshots/invariants/foreign decorators around them; one call per "
        "class; one truth assignment out of ALL 2^n (n<=6; sampled above)). Oracle: body entered iff DNF(truth); when "
        "rejected: no capture/postcondition event and the error of a falsy condition of the call. non-trivial = a "
        "call with >=2 precondition conditions of which at least one is falsy, or >=2 groups; distinct = "
        "hash(program, ops, assignment).")
ASSUMPTIONS = ["which falsy condition's error surfaces is C16's business; C01 accepts the error of any falsy one",
               "operations rejected by a falsy invariant before the call are not judged here (C03)"]


def nontrivial(case, truth, res, mask, n):
    if res.ref is None:
        return False
    m = res.ref.m
    for op in res.ops:
        eff = S.op_eff(m, res, op)
        if eff is None:
            continue
        conds = [d for g in eff["pre"] for d in g]
        if len(eff["pre"]) >= 2:
            return True
        if len(conds) >= 2 and any(not S.is_truthy((truth.get(d["cid"]) or ["T"])[0]) for d in conds):
            return True
    return False


def directed(ctx, only=None):
    """The enumerated two-base matrix of C04 (who provides the member with/without preconditions, in both orders),
    judged with C01's projection."""
    from vf.props import c04

    for case in c04.multi_base_matrix():
        D.run_one(ctx, case, JUDGE, nontrivial=nontrivial)
