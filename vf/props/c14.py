"""C14 - satisfied contracts are transparent. DESIGN 4/C14."""
import copy
import inspect

from hypothesis import given, strategies as st

from vf import core, sigmodel, vrt
from vf.sigmodel import Obj
from vf.progmodel import driver as D
from vf.progmodel import gen as G
from vf.progmodel import harness as H
from vf.progmodel import ref as REF
from vf.progmodel import run as RUN
from vf.props import c03

ID = "C14"
LEVEL = "exploration"
SHARDS = {"quick": 1, "thorough": 16}
N_QUICK, N_THOROUGH = 500, 4000
RULE = ("(A) callables: signature (sigmodel: positional-only / positional-or-keyword / *args / keyword-only / **kwargs, "
        "defaults) x call shape x kind {function, method, staticmethod, classmethod} x def/async def x a stack of 1..5 "
        "SATISFIED contract decorators (require, ensure, snapshot) interleaved with 0..3 foreign functools.wraps "
        "decorators, abstractmethod above or below, body returning or raising. Differential oracle against the bare "
        "callable: identical objects received by the body and by the caller (is), equal __name__/__qualname__/"
        "__doc__/__module__/__annotations__/signature/__isabstractmethod__/coroutine-ness, the original reachable "
        "through __wrapped__ in exactly 1 + #foreign steps with exactly ONE icontract-made object on the chain. (B) "
        "classes: generated hierarchies of the C03 family (shapes plain/slots/dataclass/no-__init__, subclasses adding "
        "constructors/__new__, abstract methods) with all contracts satisfied, against their twin rendered without "
        "any contract and without DBC: invariant(...)(cls) is cls, same outcome of every operation of a generated "
        "history (construction with arguments, calls, property access, attribute assignment; bodies may call public "
        "methods of the same object again), same bodies run, same "
        "abstractness. non-trivial = (A) foreign decorator between two contracts, or keyword-only/positional-only/"
        "variadic shape, or async, or a raising body; (B) a sub-class with its own constructor or an abstract member; "
        "distinct = hash of the case.")
ASSUMPTIONS = ["'used exactly as before' is explored for construction, attribute access, method calls and abstractness; "
               "pickling/copying/metaclass conflicts are not explored (DESIGN section 7)"]
KNOWN = {
    # constructor of a multi-base class behaves differently from the twin in a program of the D23 shape
    "D23": lambda bucket, case: bucket.startswith(("twin-bodies|new", "twin-outcome|new")) and "program" in case
    and D.d23_shape(case["program"]),
}

D23_CASE = {
    "part": "B", "directed": "D23",
    "program": {"funcs": [], "classes": [
        {"name": "K0", "bases": [], "root": "DBC", "shape": "noinit", "members": [],
         "invs": [{"cid": 1, "on": "CALL", "lam": False, "selfarg": True, "err": {"form": "default"}}]},
        {"name": "K1", "bases": [], "root": "DBC", "shape": "plain", "invs": [], "members": [
            {"name": "__new__", "kind": "new", "async": False, "params": ["x", "y"], "defaults": {"x": "None", "y": "None"},
             "decos": [], "body": {"ret": "None"}},
            {"name": "__init__", "kind": "init", "async": False, "params": ["x", "y"], "defaults": {"x": "None", "y": "None"},
             "decos": [], "body": {"ret": "None"}, "super": "absent"}]},
        {"name": "K2", "bases": [0, 1], "root": "DBC", "shape": "plain", "invs": [], "members": []}]},
    "ops": [{"op": "new", "cls": 2, "k": 0, "args": {}}],
}


class _Boom(Exception):
    pass


def build_callable(sig, kind, is_async, stack, raises):
    """Returns (bare callable, decorated callable, log, n_foreign, holder class or None)."""
    import functools
    import icontract

    log = []
    result = Obj("RESULT")
    boom = _Boom("from the body")
    g = {"LOG": log, "RESULT": result, "BOOM": boom, "Obj": Obj}
    for n in sig["dflt"]:
        g["D_" + n] = Obj("dflt_" + n)
    first = {"method": "self, ", "classmethod": "cls, ", "function": "", "staticmethod": ""}[kind]
    params = sigmodel.render_params(sig)
    if first and not params:
        first = first.rstrip(", ")
    ann = " -> 'Obj'"
    body = "    '''the docstring'''\n    LOG.append(dict(locals()))\n    %s\n" % ("raise BOOM" if raises else "return RESULT")
    src = "%sdef f(%s%s)%s:\n%s" % ("async " if is_async else "", first, params, ann, body)
    exec(compile(src, "<c14>", "exec"), g)
    bare = g["f"]

    def foreign(fn, **wraps_kw):
        # updated=(): a wrapper that exposes __wrapped__ but does not copy the __dict__ of what it wraps
        if inspect.iscoroutinefunction(fn):
            @functools.wraps(fn, **wraps_kw)
            async def aw(*a, **k):
                return await fn(*a, **k)
            return aw

        @functools.wraps(fn, **wraps_kw)
        def w(*a, **k):
            return fn(*a, **k)
        return w

    f = bare
    n_foreign = 0
    has_post = False
    for item in stack:
        if item == "require":
            f = icontract.require(lambda: True)(f)
        elif item == "ensure":
            f = icontract.ensure(lambda result: True)(f)
            has_post = True
        elif item == "snapshot":
            if has_post:
                f = icontract.snapshot(lambda: 1, name="s%d" % len(log) if False else "snap%d" % id(item))(f) if False else f
        elif item == "foreign":
            f = foreign(f)
            n_foreign += 1
        elif item == "foreign-noupdate":
            f = foreign(f, updated=())
            n_foreign += 1
    return bare, f, log, n_foreign, result, boom


def check_callable(ctx, case):
    import icontract

    sig, shape, kind, is_async, stack, raises = (case["sig"], case["shape"], case["kind"], case["async"], case["stack"],
                                                 case["raises"])
    bare, deco, log, n_foreign, result, boom = build_callable(sig, kind, is_async, stack, raises)
    tag = "%s%s" % (kind, "/async" if is_async else "")

    def fail(clause, detail):
        ctx.fail("%s|%s" % (clause, tag), case, "%s\ndef f(%s), stack (innermost first) %r, call %r" % (
            detail, sigmodel.render_params(sig, lambda n: "<dflt>"), stack, shape))

    # metadata
    for attr in ("__name__", "__qualname__", "__doc__", "__module__", "__annotations__"):
        if getattr(deco, attr, None) != getattr(bare, attr, None):
            fail("metadata:" + attr, "%s differs: %r vs %r" % (attr, getattr(deco, attr, None), getattr(bare, attr, None)))
            return
    if inspect.signature(deco) != inspect.signature(bare):
        fail("metadata:signature", "signature %s vs %s" % (inspect.signature(deco), inspect.signature(bare)))
        return
    if inspect.iscoroutinefunction(deco) != inspect.iscoroutinefunction(bare):
        fail("metadata:coroutine-ness", "iscoroutinefunction differs")
        return
    # __wrapped__ chain
    chain = []
    cur = deco
    while cur is not bare and hasattr(cur, "__wrapped__") and len(chain) < 20:
        chain.append(cur)
        cur = cur.__wrapped__
    n_contracts = len([s for s in stack if s in ("require", "ensure")])
    exp_steps = n_foreign + (1 if n_contracts else 0)
    if cur is not bare or len(chain) != exp_steps:
        fail("wrapped-chain", "__wrapped__ reaches the original in %d steps (reached: %s), expected %d" % (
            len(chain), cur is bare, exp_steps))
        return
    made = [c for c in chain if getattr(getattr(c, "__code__", None), "co_filename", "").endswith("_checkers.py")]
    if len(made) != (1 if n_contracts else 0):
        fail("single-checker", "%d objects on the decorator stack were made by icontract, expected one" % len(made))
        return
    # the call
    args, kwargs = sigmodel.make_call(sig, shape)
    holder = Obj("self-or-cls")
    lead = (holder,) if kind in ("method", "classmethod") else ()

    def run(fn):
        del log[:]
        try:
            r = fn(*lead, *args, **kwargs)
            if is_async:
                r = RUN.drive(r)
            return ("ret", r), dict(log[-1]) if log else None
        except BaseException as e:  # noqa
            return ("exc", e), dict(log[-1]) if log else None

    out_b, loc_b = run(bare)
    out_d, loc_d = run(deco)
    if out_b[0] == "exc" and isinstance(out_b[1], TypeError) and out_b[1] is not boom:
        raise core.HarnessError("the bare function rejects the generated call: %r" % (out_b[1],))
    if out_d[0] != out_b[0] or out_d[1] is not out_b[1]:
        fail("outcome-identity", "bare gives %r, decorated gives %r" % (out_b, out_d))
        return
    if loc_b is None or loc_d is None or set(loc_b) != set(loc_d) or any(not same(loc_b[k], loc_d[k]) for k in loc_b):
        fail("arguments-identity", "the body of the bare function received %r, the body under the contracts %r" % (loc_b, loc_d))
        return
    feats = sigmodel.shape_features(sig, shape)
    between = any(stack[i].startswith("foreign") and any(s in ("require", "ensure") for s in stack[:i]) and any(
        s in ("require", "ensure") for s in stack[i + 1:]) for i in range(len(stack)))
    nt = between or bool(set(feats) & {"kwonly", "posonly", "surplus_pos", "surplus_kw"}) or is_async or raises
    ctx.count("callable:" + tag)
    if between:
        ctx.count("foreign-between-contracts")
    ctx.case(["A", case], nt, sample=lambda: {"def": "def f(%s)" % sigmodel.render_params(sig, lambda n: "<dflt>"), "kind": tag,
                                               "stack_innermost_first": stack, "call": shape, "raises": raises})


SELF_NAME_SRC = """
class K{base}:
    def __init__({me}, v=1):
        {me}.v = v

    def m({me}, x):
        LOG.append("m")
        return (x, {me}.v)

    def only_star(*args):
        LOG.append("only_star")
        return len(args)

    @property
    def p({me}):
        LOG.append("p")
        return {me}.v

    @p.setter
    def p({me}, value):
        LOG.append("p.set")
        {me}.v = value

    def __len__({me}):
        LOG.append("len")
        return 3

    async def am({me}, x):
        LOG.append("am")
        return x
"""


def self_name_cases(ctx, only=None):
    """Classes whose methods call their first parameter something else than ``self``: with a satisfied invariant the class
    is used exactly like its bare twin (same results, every body run once), and the invariant is evaluated around the
    public operations."""
    import icontract

    for me in ("self", "this", "s", "_"):
        for how in ("decorated", "dbc", "inherited"):
            if only and only != [me, how]:
                continue
            seen = []

            def inv(self):
                seen.append("inv")
                return True

            def build(contracted):
                g = {"LOG": [], "icontract": icontract}
                base = "(icontract.DBC)" if contracted and how == "dbc" else "(P)" if contracted and how == "inherited" else ""
                if contracted and how == "inherited":
                    g["P"] = icontract.invariant(inv)(type(icontract.DBC)("P", (icontract.DBC,), {}))
                exec(compile(SELF_NAME_SRC.format(base=base, me=me), "<c14selfname>", "exec"), g)
                K = g["K"]
                if contracted and how != "inherited":
                    K = icontract.invariant(inv)(K)
                return K, g["LOG"]

            ops = [("construct", lambda K: K(2).v), ("method", lambda K: K(2).m(5)), ("keyword call", lambda K: K(2).m(x=5)),
                   ("*args-only method", lambda K: K(2).only_star(1, 2)), ("property get", lambda K: K(2).p),
                   ("property set", lambda K: setattr(K(2), "p", 9)), ("len()", lambda K: len(K(2))),
                   ("unbound call", lambda K: K.m(K(2), 5)), ("instance by keyword", lambda K: K.m(**{me: K(2), "x": 5})), ("async method", lambda K: RUN.drive(K(2).am(4)))]
            label = "first parameter named %r (%s)" % (me, how)
            for oname, fn in ops:
                outs = []
                for contracted in (False, True):
                    K, log = build(contracted)
                    del seen[:]
                    try:
                        o = ("ret", fn(K))
                    except BaseException as e:  # noqa
                        o = ("exc", type(e).__name__, str(e)[:120])
                    outs.append((o, list(log), len(seen)))
                (o0, l0, _), (o1, l1, n_inv) = outs
                ctx.case(["self-name", me, how, oname], me != "self", sample={"directed": label, "operation": oname, "outcome": list(o1)})
                ctx.count("directed:self-name")
                want_inv = 1 if oname == "construct" else 3
                if o0 != o1 or l0 != l1 or n_inv < want_inv:
                    ctx.fail("self-name|%s|%s" % ("self" if me == "self" else "other", oname.split()[0]),
                             {"part": "self-name", "directed": [me, how]},
                             "%s, %s: the bare twin gives %r (bodies %r), the class with a satisfied invariant gives %r (bodies "
                             "%r) with %d invariant evaluations (at least %d expected)" % (label, oname, o0, l0, o1, l1, n_inv, want_inv))


def reserved_name_cases(ctx):
    """`result` and `OLD` mean something to POSTconditions only: a callable that carries preconditions (or a class
    invariant) and no postcondition may well have a parameter of that name, or receive such a keyword through **kwargs -
    with satisfied contracts it behaves like the bare one."""
    import icontract

    for name in ("result", "OLD"):
        for is_async in (False, True):
            for shape in ("positional", "keyword", "through-**kwargs", "used-by-the-precondition", "method-of-invariant-class"):
                log = []
                params = "x, **kwargs" if shape == "through-**kwargs" else "x, %s=7" % name
                src = "%sdef f(%s%s):\n    LOG.append(sorted(locals().items(), key=str))\n    return x\n" % (
                    "async " if is_async else "", "self, " if shape.startswith("method") else "", params)
                g = {"LOG": log}
                exec(src, g)
                bare = g["f"]
                if shape == "used-by-the-precondition":
                    pre = eval("lambda %s: %s == 5" % (name, name))
                else:
                    pre = lambda x: x > 0  # noqa
                if shape.startswith("method"):
                    K0 = type("K", (), {"f": bare})
                    K1 = icontract.invariant(lambda self: True)(type("K", (), {"f": icontract.require(pre)(bare)}))
                    twin, contracted = K0().f, K1().f
                else:
                    twin, contracted = bare, icontract.require(pre)(bare)
                args, kwargs = (1,), {name: 5}
                if shape == "positional":
                    args, kwargs = (1, 5), {}
                outs = []
                for fn in (twin, contracted):
                    del log[:]
                    try:
                        r = fn(*args, **kwargs)
                        if is_async:
                            r = RUN.drive(r)
                        outs.append((("ret", r), [[(k, v) for k, v in l if k != "self"] for l in log]))
                    except BaseException as e:  # noqa
                        outs.append((("exc", type(e).__name__, str(e)[:120]), list(log)))
                label = "%s%s with a parameter/keyword named %s (%s), preconditions only" % (
                    "async " if is_async else "", "method" if shape.startswith("method") else "function", name, shape)
                ctx.case(["reserved-name", name, is_async, shape], True, sample={"directed": label, "outcome": list(outs[1][0])})
                ctx.count("directed:reserved-name-without-postcondition")
                if outs[0] != outs[1]:
                    ctx.fail("reserved-name-without-postcondition|%s|%s" % (name, shape.split("-")[0]), {"part": "reserved-name"},
                             "%s: the bare callable gives %r, the contracted one %r" % (label, outs[0], outs[1]))


def odd_object_cases(ctx, only=None):
    """Objects that real programs hand to contracted code and that the library must not poke at: default values whose
    `==` / `!=` do not give plain bools (numpy arrays, ORM columns), a __new__ that returns an object of ANOTHER class,
    a property rebuilt by the meta-class that carries an explicit doc. Bare twin vs satisfied contracts."""
    import icontract

    class Arrayish:
        """== and != return an object without a truth value (like a numpy array)."""

        def __eq__(self, other):
            return Arrayish()

        def __ne__(self, other):
            return Arrayish()

        def __bool__(self):
            raise ValueError("The truth value of an array is ambiguous")

        __hash__ = object.__hash__

    def run(label, build):
        outs = []
        for contracted in (False, True):
            try:
                outs.append(("ret", build(contracted)))
            except BaseException as e:  # noqa
                outs.append(("exc", type(e).__name__, str(e)[:120]))
        ctx.case(["odd-object", label], True, sample={"directed": label, "bare": str(outs[0])[:80], "contracted": str(outs[1])[:80]})
        ctx.count("directed:odd-object-cases")
        if outs[0] != outs[1]:
            ctx.fail("odd-object|%s" % label.split(":")[0], {"part": "odd-object", "directed": label},
                     "%s: the bare twin gives %r, with satisfied contracts %r" % (label, outs[0], outs[1]))

    default = Arrayish()

    def case_default(kind):
        def build(contracted):
            def f(x, arr=default):
                return (x, arr is default)

            async def af(x, arr=default):
                return (x, arr is default)

            target = af if kind == "async" else f
            if kind == "method":
                def target(self, x, arr=default):  # noqa
                    return (x, arr is default)
            if contracted:
                target = icontract.require(lambda x: x > 0)(icontract.ensure(lambda result: result is not None)(target))
            if kind == "method":
                K = type("K", (), {"f": target})
                if contracted:
                    K = icontract.invariant(lambda self: True)(K)
                r = K().f(1)
            else:
                r = target(1)
            return RUN.drive(r) if kind == "async" else r
        return build

    for kind in ("function", "async", "method"):
        run("default: %s with a default value whose == / != have no truth value" % kind, case_default(kind))

    def case_cond_default(contracted):
        def f(x):
            return x
        if contracted:
            f = icontract.require(lambda x, arr=default: arr is default and x > 0)(f)
        return f(1)
    run("default: condition parameter with such a default", case_cond_default)

    def case_new(contracted):
        class A:
            def __new__(cls, x):
                return 5 if x == 0 else object.__new__(cls)

            def m(self):
                return 1
        if contracted:
            A = icontract.invariant(lambda self: True)(A)
        return (A(0), type(A(1)).__name__, A(1).m())
    run("new: __new__ returning an object of another class", case_new)

    def case_ctor(root, sub):
        """root: what the class given invariants defines itself; sub: what its sub-class adds."""
        def build(contracted):
            ns = {"m": lambda self: 1}
            if root in ("init", "both"):
                ns["__init__"] = lambda self, *a: setattr(self, "a", a)
            if root in ("new", "both"):
                ns["__new__"] = lambda cls, *a: object.__new__(cls)
            A = type("A", (), ns)
            if contracted:
                A = icontract.invariant(lambda self: True)(A)
            sns = {}
            if sub in ("init", "both"):
                def sub_init(self, x, y=2):
                    self.xy = (x, y)
                sns["__init__"] = sub_init
            if sub in ("new", "both"):
                def sub_new(cls, x, y=2):
                    o = object.__new__(cls)
                    o.seen = (x, y)
                    return o
                sns["__new__"] = sub_new
            S = type("S", (A,), sns)
            outs = []
            for args in ((), ("a",), ("a", "b")):
                for K in (A, S):
                    try:
                        o = K(*args)
                        outs.append((K.__name__, args, "ok", sorted(k for k in vars(o)), o.m()))
                    except TypeError as e:
                        outs.append((K.__name__, args, "TypeError"))
            return outs
        return build

    for root in ("none", "init", "new", "both"):
        for sub in ("none", "init", "new", "both"):
            run("ctor: class with invariants defining %s, sub-class adding %s, constructed with 0..2 arguments" % (root, sub),
                case_ctor(root, sub))

    def case_propsub(route):
        """A sub-class of `property` with behaviour of its own (a __get__ that counts, an extra method, an explicit doc)."""
        def build(contracted):
            import inspect

            class counting(property):
                reads = 0

                def __get__(self, obj, objtype=None):
                    if obj is not None:
                        type(self).reads += 1
                    return super().__get__(obj, objtype)

                def describe(self):
                    return "counting property"

            def getter(self):
                "getter doc"
                return 2

            def setter(self, value):
                self.__dict__["stored"] = value

            if route == "invariant":
                K = type("K", (), {"v": counting(getter, setter), "__init__": lambda self: None})
                if contracted:
                    K = icontract.invariant(lambda self: True)(K)
            else:
                root = icontract.DBC if contracted else object
                base_getter = (icontract.ensure(lambda result: True)(lambda self: 1)) if contracted else (lambda self: 1)
                Base = type(root)("Base", (root,), {"v": property(base_getter)})
                K = type(Base)("K", (Base,), {"v": counting(getter, setter)})
            static = inspect.getattr_static(K, "v")
            o = K()
            o.v = 7
            return (type(static).__name__, hasattr(static, "describe"), o.v, o.v, counting.reads, o.__dict__.get("stored"), static.__doc__)
        return build

    for route in ("invariant", "dbc"):
        run("propsub: a sub-class of property with behaviour of its own (%s)" % route, case_propsub(route))

    def case_doc(contracted):
        def getter(self):
            "getter doc"
            return 2

        if contracted:
            Base = type(icontract.DBC)("Base", (icontract.DBC,), {
                "x": property(icontract.require(lambda self: True)(lambda self: 1))})
            Sub = type(icontract.DBC)("Sub", (Base,), {"x": property(getter, doc="explicit doc")})
        else:
            Base = type("Base", (), {"x": property(lambda self: 1)})
            Sub = type("Sub", (Base,), {"x": property(getter, doc="explicit doc")})
        return (Sub.x.__doc__, Sub().x)
    run("doc: explicit doc of a property overriding a contracted one", case_doc)


def colour_cases(ctx):
    """Foreign functools.wraps decorators that change the colour of the callable (a sync adapter that runs an `async def`
    to completion, an async adapter around a `def`), with satisfied contracts above and/or below them: the stack with
    contracts must behave like the stack without - same coroutine-ness, same result object, body run once."""
    import functools
    import itertools

    import icontract

    def sync_over_async(fn):
        @functools.wraps(fn)
        def w(*a, **k):
            return RUN.drive(fn(*a, **k))
        return w

    def async_over_sync(fn):
        @functools.wraps(fn)
        async def w(*a, **k):
            return fn(*a, **k)
        return w

    for inner_async, where, deco in itertools.product((False, True), ("above", "below", "both"), ("require", "ensure")):
        log = []
        result = Obj("RESULT")

        if inner_async:
            async def f(x):
                log.append(x)
                return result
            adapter = sync_over_async
        else:
            def f(x):
                log.append(x)
                return result
            adapter = async_over_sync

        def contract(fn):
            if deco == "require":
                return icontract.require(lambda x: x is not None)(fn)
            return icontract.ensure(lambda result: result is not None)(fn)

        twin = adapter(f)
        g = f
        if where in ("below", "both"):
            g = contract(g)
        g = adapter(g)
        if where in ("above", "both"):
            g = contract(g)
        label = "%s function, %s adapter, %s %s the adapter" % ("async" if inner_async else "sync", adapter.__name__, deco, where)
        case = {"part": "colour", "directed": [inner_async, where, deco]}
        ctx.case(["colour", inner_async, where, deco], True, sample={"directed": label})
        if inspect.iscoroutinefunction(g) != inspect.iscoroutinefunction(twin):
            ctx.fail("colour|coroutine-ness|%s" % where, case, "%s: iscoroutinefunction is %s, without the contracts %s" % (
                label, inspect.iscoroutinefunction(g), inspect.iscoroutinefunction(twin)))
            continue
        outs = []
        for fn in (twin, g):
            del log[:]
            arg = Obj("ARG")
            try:
                r = fn(arg)
                if inspect.iscoroutine(r):
                    r = RUN.drive(r)
                outs.append(("ret", r is result, len(log)))
            except BaseException as e:  # noqa
                outs.append(("exc", type(e).__name__, len(log)))
        if outs[0] != outs[1]:
            ctx.fail("colour|outcome|%s" % where, case, "%s: without contracts %r (returned the body's object, bodies run), with "
                     "contracts %r" % (label, outs[0], outs[1]))


def same(a, b):
    if isinstance(a, tuple) and isinstance(b, tuple):
        return len(a) == len(b) and all(x is y for x, y in zip(a, b))
    if isinstance(a, dict) and isinstance(b, dict):
        return list(a) == list(b) and all(a[k] is b[k] for k in a)
    return a is b


@st.composite
def st_callable_case(draw):
    sig = draw(sigmodel.st_sig())
    shape = draw(sigmodel.st_shape(sig))
    stack = draw(st.lists(st.sampled_from(["require", "ensure", "foreign", "require", "ensure", "foreign-noupdate"]), min_size=1, max_size=6))
    return {"part": "A", "sig": sig, "shape": shape, "kind": draw(st.sampled_from(["function", "method", "staticmethod", "classmethod"])),
            "async": draw(st.integers(0, 3)) == 0, "stack": stack, "raises": draw(st.integers(0, 4)) == 0}


# ---- (B) classes against their undecorated twin --------------------------------------------------------------

def strip_contracts(program):
    p = copy.deepcopy(program)
    for c in p["classes"]:
        c["invs"] = []
        if not c["bases"]:
            c["root"] = "abc"
        for m in c["members"]:
            m["decos"] = [d for d in m.get("decos", []) if d["t"] in ("abstract", "wraps")]
    return p


@st.composite
def st_class_case(draw):
    case = draw(c03.st_case())
    prog = case["program"]
    # abstract members: an abstract method at the root, implemented (or not) below
    if len(prog["classes"]) >= 2 and prog["classes"][0]["root"] != "plain" and draw(st.booleans()):
        ab = {"name": "ab", "kind": "method", "async": False, "params": ["x", "y"], "defaults": {"y": "None"},
              "decos": [{"t": "abstract"}], "body": {"ret": "obj"}}
        if draw(st.booleans()):
            ab["decos"] = draw(st.sampled_from([
                [{"t": "abstract"}, {"t": "require", "cid": 900, "args": [], "lam": False, "err": {"form": "default"}}],
                [{"t": "ensure", "cid": 901, "args": [], "lam": False, "err": {"form": "default"}}, {"t": "abstract"}]]))
        prog["classes"][0]["members"].append(ab)
        for c in prog["classes"][1:]:
            if draw(st.booleans()):
                c["members"].append({"name": "ab", "kind": "method", "async": False, "params": ["x", "y"],
                                     "defaults": {"y": "None"}, "decos": [], "body": {"ret": "obj"}})
        case["abstract"] = True
    # constructors that fail: the exception of the body (also of a nested super().__init__()) reaches the caller as it is
    for c in prog["classes"]:
        for m in c["members"]:
            if m["kind"] == "init" and draw(st.integers(0, 3)) == 0:
                m["body"] = {"raise": draw(st.sampled_from(["KeyError", "KeyError", "ProgError", "TypeError", "AttributeError"]))}
                case["raising_init"] = True
    # all contracts hold
    for op in case["ops"]:
        op["truth"] = {k: ["T"] for k in (op.get("truth") or {})}
    # constructions of every class (abstractness, constructor arguments)
    for ci in range(len(prog["classes"])):
        case["ops"].append({"op": "new", "cls": ci, "k": 10 + ci, "args": {}})
        # the same constructor arguments by keyword only, and positionally (both must behave as in the twin,
        # including the TypeError of classes that take no arguments)
        case["ops"].append({"op": "new", "cls": ci, "k": 20 + ci, "args": {"x": "a:kx"}})
        case["ops"].append({"op": "new", "cls": ci, "k": 30 + ci, "args": {"x": "a:px"}, "positional": ["x"]})
        case["ops"].append({"op": "new", "cls": ci, "k": 40 + ci, "args": {"x": "a:px", "y": "a:ky"}, "positional": ["x"]})
    # bodies that call a public method of the same object again before they return (nested calls of checked methods)
    if draw(st.booleans()):
        scripts = []
        for c in prog["classes"]:
            for m in c["members"]:
                if m["kind"] == "method" and not m["name"].startswith("_") and draw(st.booleans()):
                    target = draw(st.sampled_from([x["name"] for x in prog["classes"][0]["members"]
                                                   if x["kind"] == "method" and not x["name"].startswith("_")] or ["m"]))
                    scripts.append([["body", "%s.%s" % (c["name"], m["name"])],
                                    [{"op": "call", "k": 0, "m": target, "args": {"x": "a:nested"}}]])
        if scripts:
            case["scripts"] = scripts
            case["fuel"] = draw(st.integers(1, 3))
    case["part"] = "B"
    return case


def directed_class_cases():
    """A constructor body that raises, reached directly and through super().__init__() (first / last), for every
    exception type of the pool that the library handles somewhere itself; the classes carry a satisfied invariant."""
    def init(sup, body):
        return {"name": "__init__", "kind": "init", "async": False, "params": ["x", "y"], "defaults": {"x": "None", "y": "None"},
                "decos": [], "body": body, "super": sup}

    inv = {"cid": 1, "on": "CALL", "lam": False, "selfarg": True, "err": {"form": "default"}}
    for exc in ("KeyError", "TypeError", "AttributeError", "ValueError", "ProgError", "KeyboardInterrupt"):
        for sup in ("first", "last"):
            prog = {"funcs": [], "classes": [
                {"name": "K0", "bases": [], "root": "DBC", "shape": "plain", "invs": [dict(inv)],
                 "members": [init("absent", {"raise": exc})]},
                {"name": "K1", "bases": [0], "root": "DBC", "shape": "plain", "invs": [],
                 "members": [init(sup, {"ret": "None"})]}]}
            yield {"part": "B", "program": prog, "directed": "raising-init/%s/%s" % (exc, sup),
                   "ops": [{"op": "new", "cls": 1, "k": 0, "args": {}, "truth": {1: ["T"]}},
                           {"op": "new", "cls": 0, "k": 1, "args": {}, "truth": {1: ["T"]}}]}


def diamond_class_cases():
    """The diamonds of C04's matrix that carry invariants: every class wraps its members, yet the body that runs for the
    bottom class is the one the bare twin runs (an arm that merely inherits does not shadow the other arm's override)."""
    from vf.props import c04

    for case in c04.diamond_matrix():
        m = case["matrix"]
        if m[-1] == "none" or (m[3] == "nopre" and m[5] == "override+pre"):
            continue  # (adding a precondition below an unconstrained base is rejected at definition: C04's business)
        yield {"part": "B", "program": case["program"], "ops": case["ops"], "directed": "diamond/" + "/".join(str(x) for x in m[1:])}


def static_member_class_cases():
    """Static and class methods defined by a class with invariants, used through (grand-)children that merely inherit them
    (and through children that redefine them): they are not instance operations, with or without invariants."""
    from vf.progmodel import gen as G

    inv = {"cid": 1, "on": "CALL", "lam": False, "selfarg": True, "err": {"form": "default"}}

    def member(kind, name):
        params, defaults = G.params_of(kind)
        return {"name": name, "kind": kind, "async": False, "params": params, "defaults": defaults, "decos": [], "body": {"ret": "obj"}}

    for redefine in (False, True):
        for root_inv in (True, False):
            classes = [{"name": "K0", "bases": [], "root": "DBC", "shape": "plain", "invs": [dict(inv)] if root_inv else [],
                        "members": [member("static", "st"), member("class", "cm"), member("method", "m")]},
                       {"name": "K1", "bases": [0], "root": "DBC", "shape": "plain", "invs": [] if root_inv else [dict(inv)],
                        "members": [member("static", "st"), member("class", "cm")] if redefine else []},
                       {"name": "K2", "bases": [1], "root": "DBC", "shape": "plain", "invs": [], "members": []}]
            ops = []
            for ci in range(3):
                ops.append({"op": "new", "cls": ci, "k": ci, "args": {}})
                for nm in ("st", "cm", "m"):
                    ops.append({"op": "call", "k": ci, "m": nm, "args": {"x": "a:x"}})
            yield {"part": "B", "program": {"funcs": [], "classes": classes}, "ops": ops,
                   "directed": "static-members/%s/%s" % ("redefined" if redefine else "inherited", "root-inv" if root_inv else "child-inv")}


def body_view(log):
    return [(e[0], e[1]) for e in log if e[0] == "body"]


def check_class(ctx, case):
    prog = case["program"]
    twin = strip_contracts(prog)
    truth = {}
    ops = case["ops"]
    with RUN.Loaded(prog) as l1, RUN.Loaded(twin) as l2:
        if any(v is not None for v in l2.errors.values()):
            raise core.HarnessError("the undecorated twin does not define: %r\n%s" % (l2.errors, l2.text))
        bad = {k: v for k, v in l1.errors.items() if v is not None}
        if bad:
            ctx.fail("class-definition|%s" % prog["classes"][0].get("shape"), dict(case, truth={}),
                     "the decorated classes fail to define although the twin defines: %r\n%s" % (bad, l1.text[-2500:]))
            return
        # invariant(...)(cls) is cls
        import icontract

        for c in prog["classes"]:
            cls = getattr(l1.mod, c["name"])
            if icontract.invariant(lambda self: True)(cls) is not cls:
                ctx.fail("invariant-returns-other-class", dict(case, truth={}), "invariant(...)(%s) is not the class itself" % c["name"])
                return
            cls2 = getattr(l2.mod, c["name"])
            if inspect.isabstract(cls) != inspect.isabstract(cls2):
                ctx.fail("abstractness|%s" % ("abstract-lost" if inspect.isabstract(cls2) else "abstract-gained"),
                         dict(case, truth={}), "inspect.isabstract(%s) = %s, the undecorated twin says %s\n%s" % (
                             c["name"], inspect.isabstract(cls), inspect.isabstract(cls2), l1.text[-2500:]))
                return
        scripts = {tuple(k): v for k, v in case.get("scripts", [])} or None
        fuel = case.get("fuel", 0)
        log1, outs1, _ = core.in_fresh_thread(lambda: RUN.execute(l1, ops, truth, scripts=scripts, fuel=fuel))
        log2, outs2, _ = core.in_fresh_thread(lambda: RUN.execute(l2, ops, truth, scripts=scripts, fuel=fuel))
    for i, (a, b) in enumerate(zip(outs1, outs2)):
        pa = norm_out(a)
        pb = norm_out(b)
        if pa != pb:
            ctx.fail("twin-outcome|%s|%s" % (ops[i]["op"], prog["classes"][0].get("shape")), dict(case, truth={}),
                     "op %d %r: with contracts %r, the undecorated twin %r\n%s" % (
                         i, {k: v for k, v in ops[i].items() if k != "truth"}, a[:2], b[:2], l1.text[l1.text.index("import abc"):][:3000]))
            return
        # an invariant looks at instances of its class only (a wrapper that takes some other argument for the instance
        # would still come out "satisfied" here, where conditions never touch the object)
        foreign = [e for e in H.segment(log1, outs1, i) if e[0] == "inv" and len(e) > 2 and isinstance(e[2], dict)
                   and e[2].get("self", "self") != "self"]
        if foreign:
            ctx.fail("invariant-on-foreign-object|%s|%s" % (ops[i]["op"], prog["classes"][0].get("shape")), dict(case, truth={}),
                     "op %d %r: an invariant was evaluated with something else than the instance as `self`: %r" % (
                         i, {k: v for k, v in ops[i].items() if k != "truth"}, foreign[:3]))
            return
        s1 = body_view(H.segment(log1, outs1, i))
        s2 = body_view(H.segment(log2, outs2, i))
        if s1 != s2:
            ctx.fail("twin-bodies|%s|%s" % (ops[i]["op"], prog["classes"][0].get("shape")), dict(case, truth={}),
                     "op %d %r: bodies run with contracts %r, in the twin %r" % (i, ops[i], s1, s2))
            return
    nt = bool(case.get("abstract")) or any(m["kind"] in ("init", "new") for c in prog["classes"][1:] for m in c["members"])
    ctx.count("classes:shape:" + str(prog["classes"][0].get("shape")))
    if case.get("abstract"):
        ctx.count("classes:with-abstract-member")
    if case.get("scripts"):
        ctx.count("classes:bodies-calling-methods-of-the-same-object")
    if case.get("raising_init"):
        ctx.count("classes:a-constructor-body-raises")
    ctx.case(["B", prog, [{k: v for k, v in o.items() if k != "truth"} for o in ops]], nt, sample=lambda: {
        "classes": [(c["name"], c["bases"], c.get("shape"), [m["name"] + ":" + m["kind"] for m in c["members"]]) for c in prog["classes"]],
        "ops": [{k: v for k, v in o.items() if k != "truth"} for o in ops][:8]})


def norm_out(o):
    if o[0] == "exc" and o[1][0] in ("typeerror", "other"):
        return ("exc", o[1][0], o[1][1] if o[1][0] == "other" else "TypeError")
    return o[:2]


def run(ctx, tier, seed, shard, nshards):
    n = N_QUICK if tier == "quick" else N_THOROUGH

    @given(st_callable_case())
    def test_a(case):
        check_callable(ctx, case)

    @given(st_class_case())
    def test_b(case):
        if case.get("d19_shape"):
            ctx.count("skipped:D19-shape")
            return
        check_class(ctx, case)

    core.run_hypothesis(test_a, seed, n)
    core.run_hypothesis(test_b, seed + 1, n // 2)
    if shard == 0:
        check_class(ctx, dict(D23_CASE))
        for case in directed_class_cases():
            check_class(ctx, case)
        for case in diamond_class_cases():
            check_class(ctx, case)
            ctx.count("directed:diamond-classes")
        for case in static_member_class_cases():
            check_class(ctx, case)
            ctx.count("directed:static-member-classes")
        colour_cases(ctx)
        self_name_cases(ctx)
        reserved_name_cases(ctx)
        odd_object_cases(ctx)


def replay(ctx, case):
    if case.get("part") == "odd-object":
        before = ctx.evaluations
        odd_object_cases(ctx)
        ctx.evaluations = before + 1
        return
    if case.get("part") == "reserved-name":
        before = ctx.evaluations
        reserved_name_cases(ctx)
        ctx.evaluations = before + 1
        return
    if case.get("part") == "self-name":
        before = ctx.evaluations
        self_name_cases(ctx, only=case["directed"])
        ctx.evaluations = before + 1
        return
    if case.get("part") == "colour":
        before = ctx.evaluations
        colour_cases(ctx)
        ctx.evaluations = before
        return
    if case.get("part") == "A":
        return check_callable(ctx, case)
    check_class(ctx, case)
