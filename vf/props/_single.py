"""Judges (oracle projections) for the single-call properties built on progmodel."""
from vf.progmodel import harness as H
from vf.progmodel import driver as D
from vf.vrt import is_truthy


def kinds(seg):
    return [e[0] for e in seg]


def per_op(res):
    for i, op in enumerate(res.ops):
        yield i, op, H.segment(res.ref_log, res.ref_outs, i), H.segment(res.real_log, res.real_outs, i), \
            res.ref_outs[i], res.real_outs[i]


def ev_short(e):
    return None if e is None else "%s#%s" % (e[0], e[1])


def is_pre_violation(ref_seg, ref_out):
    """The reference says the call was rejected by its precondition (no body event, an error outcome)."""
    return ref_out[0] == "exc" and not any(e[0] == "body" for e in ref_seg) and ref_out[1][0] != "typeerror"


def falsy_error_candidates(model, res, op, truth, role):
    """Outcomes that 'the error of a falsy condition of this call' may take."""
    out = []
    if op["op"] == "new":
        effs = []
        for c in model.mro[op["cls"]]:
            for key in (("__new__", "f"), ("__init__", "f")):
                if key in model.members(c):
                    effs.append(model.eff(c, key))
    else:
        effs = [op_eff(model, res, op)]
    conds = []
    for eff in effs:
        if eff is not None:
            conds += [d for g in eff["pre"] for d in g] if role == "pre" else list(eff["post"])
    for d in conds:
        code = (truth.get(d["cid"]) or ["T"])[0]
        if is_truthy(code):
            continue
        form = (d.get("err") or {"form": "default"})["form"]
        cid = d["cid"]
        out.append({"default": ("viol", cid), "class": ("cls", "ErrA", cid), "baseclass": ("cls", "ErrB", cid),
                    "instance": ("inst", cid)}.get(form, ("tok-err", cid)))
    return out


def outcome_in(real_what, cands):
    for c in cands:
        if c[0] == "tok-err":
            if real_what[0] == "tok" and real_what[1].startswith("err%d." % c[1]):
                return True
        elif tuple(real_what) == tuple(c):
            return True
    return False


def op_eff(model, res, op):
    if op["op"] == "callf":
        return model.eff_func(op["f"])
    inst_cls = {}
    for o in res.ops:
        if o["op"] == "new":
            inst_cls[o["k"]] = o["cls"]
    if op["op"] == "new":
        return model.eff(op["cls"], ("__init__", "f"))
    ci = inst_cls.get(op.get("k"))
    if ci is None:
        return None
    key = (op["m"], "f") if op["op"] == "call" else (op["m"], op["op"])
    return model.eff(ci, key)


# ---------------------------------------------------------------------------------------------------------------
def judge_c16(ctx, case, truth, res, model):
    if res.def_mismatch:
        return
    sig = D.struct_sig(case)
    for i, op, rs, qs, ro, qo in per_op(res):
        if not H.traces_match(rs, qs):
            d = H.first_diff(H.strip_opt(rs), qs)
            if d is None:
                d = H.first_diff(rs, qs)
            ctx.fail("trace|%s|%s|ref:%s|real:%s" % (op["op"], sig, ev_short(d[1]), ev_short(d[2])), case, D.describe(
                case, res, "op %d %r: event traces differ at position %d\n reference: %r\n real:      %r\n"
                           "reference trace:\n%s\nreal trace:\n%s" % (
                    i, op, d[0], d[1], d[2], H.fmt_trace(rs), H.fmt_trace(qs))))
            return
        if not H.outcome_matches(ro, qo):
            ctx.fail("surfaced|%s|%s|ref:%s|real:%s" % (op["op"], sig, ro[1] and ro[1][0], qo[1] and qo[1][0]),
                     case, D.describe(case, res, "op %d %r: outcome differs\n reference: %r\n real:      %r\ntrace:\n%s" % (
                         i, op, ro[:2], qo[:2], H.fmt_trace(qs))))
            return


def judge_c01(ctx, case, truth, res, model):
    if res.def_mismatch:
        return
    sig = D.struct_sig(case)
    for i, op, rs, qs, ro, qo in per_op(res):
        rb = [e for e in rs if e[0] == "body"]
        qb = [e for e in qs if e[0] == "body"]
        if [e[1] for e in rb] != [e[1] for e in qb]:
            ctx.fail("body-entered|%s|%s|ref:%d|real:%d" % (op["op"], sig, len(rb), len(qb)), case, D.describe(
                case, res, "op %d %r: bodies entered %r, the effective precondition says %r\nreal trace:\n%s" % (
                    i, op, [e[1] for e in qb], [e[1] for e in rb], H.fmt_trace(qs))))
            return
        if is_pre_violation(rs, ro) and not any(e[0] == "inv" for e in rs):
            bad = [e for e in qs if e[0] in ("cap", "post")]
            if bad and op["op"] != "new":  # constructors nest (super().__init__, __new__ then __init__)
                ctx.fail("rejected-but-%s|%s|%s" % (bad[0][0], op["op"], sig), case, D.describe(
                    case, res, "op %d %r rejected by its precondition but %r was evaluated" % (i, op, bad[0])))
                return
            cands = falsy_error_candidates(model, res, op, truth, "pre")
            if qo[0] != "exc" or not outcome_in(qo[1], cands):
                ctx.fail("rejected-error|%s|%s|real:%s" % (op["op"], sig, qo[1] and qo[1][0]), case, D.describe(
                    case, res, "op %d %r rejected by its precondition; expected the error of a falsy condition %r, "
                               "got %r" % (i, op, cands, qo[:2])))
                return
        elif ro[0] == "ret" and not H.outcome_matches(ro, qo):
            ctx.fail("accepted-outcome|%s|%s|real:%s" % (op["op"], sig, qo[0]), case, D.describe(
                case, res, "op %d %r: precondition holds and nothing else is falsy; expected %r, got %r" % (
                    i, op, ro[:2], qo[:2])))
            return


def judge_c02(ctx, case, truth, res, model):
    if res.def_mismatch:
        return
    sig = D.struct_sig(case)
    for i, op, rs, qs, ro, qo in per_op(res):
        if is_pre_violation(rs, ro) or (ro[0] == "exc" and ro[1][0] == "typeerror"):
            if not H.outcome_matches(ro, qo):
                return  # C01's business; later ops are out of sync
            continue
        rp = [e for e in rs if e[0] == "post"]
        qp = [e for e in qs if e[0] == "post"]
        if not H.traces_match(rp, qp):
            d = H.first_diff(H.strip_opt(rp), qp) or H.first_diff(rp, qp)
            ctx.fail("post-events|%s|%s|ref:%s|real:%s" % (op["op"], sig, ev_short(d[1]), ev_short(d[2])), case,
                     D.describe(case, res, "op %d %r: postcondition evaluations differ at %d\n reference: %r\n "
                                           "real:      %r" % (i, op, d[0], d[1], d[2])))
            return
        if not H.outcome_matches(ro, qo):
            ctx.fail("outcome|%s|%s|ref:%s|real:%s" % (op["op"], sig, ro[1] and (ro[1] if ro[0] == "ret" else ro[1][0]),
                                                       qo[1] and (qo[1] if qo[0] == "ret" else qo[1][0])), case,
                     D.describe(case, res, "op %d %r: caller must see %r, saw %r" % (i, op, ro[:2], qo[:2])))
            return


def judge_c08(ctx, case, truth, res, model):
    sig = D.struct_sig(case)
    if res.def_mismatch:
        for name, exp, real in res.def_mismatch:
            ctx.fail("definition|%s|exp:%s|real:%s" % (sig, exp.split(" ")[0], real.split(":")[0]), case, D.describe(
                case, res, "definition of %s: expected %s, got %s" % (name, exp, real)))
        return
    for i, op, rs, qs, ro, qo in per_op(res):
        rc = [e for e in rs if e[0] == "cap"]
        qc = [e for e in qs if e[0] == "cap"]
        if rc != qc:
            ctx.fail("capture-count|%s|%s|ref:%d|real:%d" % (op["op"], sig, len(rc), len(qc)), case, D.describe(
                case, res, "op %d %r: captures evaluated %r, expected %r\nreal trace:\n%s" % (
                    i, op, qc, rc, H.fmt_trace(qs))))
            return
        # position: after the last precondition event of the same call level, before the body. Compared on the
        # sequence of kinds restricted to pre/cap/body (the reference has them in statement order).
        rk = [(e[0], e[1]) for e in rs if e[0] in ("pre", "cap", "body")]
        qk = [(e[0], e[1]) for e in qs if e[0] in ("pre", "cap", "body")]
        if rk != qk and sorted(map(str, rk)) == sorted(map(str, qk)):
            ctx.fail("capture-position|%s|%s" % (op["op"], sig), case, D.describe(
                case, res, "op %d %r: order of pre/cap/body events %r, expected %r" % (i, op, qk, rk)))
            return
        ro_old = [(e[0], e[1], e[2].get("OLD")) for e in rs if e[0] in ("post", "err") and "OLD" in (e[2] or {})]
        qo_old = [(e[0], e[1], e[2].get("OLD")) for e in qs if e[0] in ("post", "err") and "OLD" in (e[2] or {})]
        if ro_old != qo_old and [x[:2] for x in ro_old] == [x[:2] for x in qo_old]:
            ctx.fail("OLD-values|%s|%s" % (op["op"], sig), case, D.describe(
                case, res, "op %d %r: OLD seen %r, expected %r" % (i, op, qo_old, ro_old)))
            return
        if not H.outcome_matches(ro, qo):
            return
