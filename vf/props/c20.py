"""C20 - violation messages are deterministic and bounded. DESIGN 4/C20."""
import ast
import itertools
import json
import os
import reprlib
import subprocess
import sys

from hypothesis import given, strategies as st

from vf import core
from vf.exprgen import grammar as GR
from vf.exprgen import oracle as OR
from vf.exprgen import render as RD
from vf.exprgen import msgparse as MP
from vf.props import c06

ID = "C20"
LEVEL = "exploration"
SHARDS = {"quick": 1, "thorough": 8}
N_QUICK, N_THOROUGH = 250, 2500
RULE = ("case = (violated condition from the C06 grammar on a require, ensure or class invariant, optionally naming _ARGS/_KWARGS; argument values with "
        "address-free reprs incl. sets of ints and of strings, strings up to 300 and lists up to 60 elements; the "
        "contract's a_repr = the default or a reprlib.Repr with drawn limits (maxstring 5..40, maxlist/maxset/maxdict/"
        "maxtuple 1..8, maxlevel 1..3, maxlong 6..40) or a Repr SUB-CLASS with its own repr_int/repr_bool/repr_NoneType/"
        "repr_float; in a third of the cases integer arguments with 14..51 digits; the function also receives a function, a class and a module as arguments). "
        "Checked: (1) identical message for every permutation of 4 keyword arguments and for 0..3 leading positional "
        "arguments vs. keywords; (2) identical on three repetitions interleaved with an unrelated violation; (3) "
        "identical text from worker interpreters with PYTHONHASHSEED 1, 4242 and random (this process runs with 0); "
        "(4) value lines in sorted() order of their keys; (5) every rendering equals the contract's a_repr.repr(value) "
        "(CPython oracle of C06), hence respects its limits; (6) no line whose value is a class, function, method, "
        "module or builtin; (7) _ARGS/_KWARGS listed iff the condition names them. non-trivial = a value exceeds a "
        "limit of the contract's a_repr, or a set-valued argument is shown, or >=4 value lines; distinct = hash(text, "
        "inputs, limits).")
ASSUMPTIONS = ["no value in the condition has an address-bearing repr (the grammar's zip()/enumerate() productions are off here)",
               "sets are homogeneous (a mixed-type set's own order is outside what the library controls)",
               "call and subscript results are never classes/functions/modules (whether those are 'left out' is not "
               "settled by the statement; names and attributes are)"]
KNOWN = {}

LIMIT_FIELDS = ["maxstring", "maxlist", "maxset", "maxdict", "maxtuple", "maxlevel", "maxother"]


SUBCLASS_SRC = ("class OwnRepr(reprlib.Repr):\n"
                "    # a user's Repr with renderings of its own for the plainest values\n"
                "    def repr_int(self, x, level):\n        return 'i<%s>' % (x % 1000)\n"
                "    def repr_bool(self, x, level):\n        return 'yes' if x else 'no'\n"
                "    def repr_NoneType(self, x, level):\n        return 'nil'\n"
                "    def repr_float(self, x, level):\n        return '%.1f' % x\n")


def make_arepr(limits):
    if not limits:
        return None
    limits = dict(limits)
    if limits.pop("_subclass", 0):
        g = {"reprlib": reprlib}
        exec(SUBCLASS_SRC, g)
        r = g["OwnRepr"]()
    else:
        r = reprlib.Repr()
    for k, v in limits.items():
        setattr(r, k, v)
    return r


def prelude_for(limits):
    out = "import reprlib\n"
    if limits:
        limits = dict(limits)
        if limits.pop("_subclass", 0):
            out += SUBCLASS_SRC + "AR = OwnRepr()\n"
        else:
            out += "AR = reprlib.Repr()\n"
        out += "".join("AR.%s = %d\n" % (k, v) for k, v in sorted(limits.items()))
    out += ("@icontract.require(lambda q: q > 0, 'unrelated')\n"
            "def unrelated(q):\n    return q\n")
    return out


def build(case):
    """-> None | dict with module text and everything needed to call and judge."""
    prep = c06.prepare(case)
    if prep is None:
        return None
    inputs, ctext, lam_params, b = prep
    named = case.get("named", [])
    for nm in named:
        if case.get("named_use", "body") == "body":
            # keeps the condition falsy and makes it name (and evaluate) the placeholder
            ctext = GR.canon("len(%s) < 0 or (%s)" % (nm, ctext))
        # else: the lambda only ACCEPTS the placeholder (named in its signature, not used in its body)
    lam_params = sorted(set(lam_params) | set(named))
    from vf.exprgen import layout as LY

    kind = case.get("layout_kind", "one-line")
    if kind == "break-before-dot":
        import ast

        if isinstance(ast.parse(ctext, mode="eval").body, ast.NamedExpr):
            # a top-level assignment expression needs parentheses of its own, which the message leaves out together with
            # the ones the layout adds: the source segment is not the reported text then - use the plain layout
            kind = "one-line"
    text, start, end, scope = RD.module_text(ctext, lam_params, role=case.get("role", "require"), is_async=case["async"],
                                             a_repr="AR" if case.get("limits") else None, layout=LY.make_layout(kind),
                                             prelude=prelude_for(case.get("limits")))
    reported = ctext
    if kind == "break-before-dot" and LY.dot_break(ctext) is not None:
        # the condition text as it stands in the source (line breaks and indentation included)
        seg = "\n".join(text.split("\n")[start - 1:end])
        import re

        # (the rendered parameter list may carry defaults of the condition's own: `lambda G, ys, L=41: ...`)
        i = re.search(r"lambda [^:\n]*: ", seg).end()
        reported = seg[i:seg.rindex(",\n")]
    return {"text": text, "ctext": ctext, "reported": reported, "lam_params": lam_params, "inputs": inputs, "b": b}


def normalise(msg):
    lines = msg.split("\n")
    if lines and lines[0].startswith("File "):
        lines[0] = "File <generated>" + lines[0][lines[0].index(", line"):]
    return "\n".join(lines)


def messages_for(case, built, orders, npos_list, repeat=1):
    """Run the calls in one loaded module; returns list of (label, exception)."""
    out = []
    with RD.Module(built["text"]) as mod:
        for rep in range(repeat):
            for order in orders:
                for npos in npos_list:
                    exc = RD.call(mod, case.get("role", "require"), case["async"], built["inputs"], order=order, npos=npos)
                    out.append(("rep%d order=%s npos=%d" % (rep, ",".join(order[:4]), npos), exc))
            try:
                mod.mod.unrelated(-1)
            except Exception:  # noqa - the unrelated violation in between
                pass
    return out


def check_case(ctx, case, collected=None):
    import icontract

    built = build(case)
    if built is None:
        ctx.count("skipped:condition_raises_under_cpython")
        return
    names = list(GR.ARGS) + ["Y"]
    named = case.get("named", [])
    perm_names = case["perm"]
    orders = []
    for perm in itertools.permutations(perm_names):
        orders.append(list(perm) + [n for n in names if n not in perm_names])
    if "_KWARGS" in named:
        orders = orders[:1]  # the value of _KWARGS itself legitimately follows the keyword order
    npos_list = [0] if named else [0, case.get("npos", 2)]
    runs = messages_for(case, built, orders, npos_list, repeat=3)
    first = runs[0][1]
    jcase = dict(case)
    jcase["final_text"] = built["ctext"]

    def fail(clause, detail):
        ctx.fail("%s|%s|%s" % (clause, "custom-a_repr" if case.get("limits") else "default-a_repr", case.get("role", "require")), jcase,
                 "%s\ncondition: lambda %s: %s\nlimits: %r\ninputs: %r" % (
                     detail, ", ".join(built["lam_params"]), built["ctext"], case.get("limits"), case["inputs"]))

    if type(first) is not icontract.ViolationError:
        ctx.count("skipped:no_violation_message(%s)" % type(first).__name__)
        return
    ref = normalise(str(first))
    for label, exc in runs[1:]:
        if type(exc) is not icontract.ViolationError or normalise(str(exc)) != ref:
            fail("(1,2)message-varies", "the same violation gives a different message for %s:\n--- first ---\n%s\n--- then ---\n%s" % (
                label, ref, normalise(str(exc)) if isinstance(exc, Exception) else repr(exc)))
            return
    try:
        parsed = MP.parse(str(first), "the-desc", built.get("reported", built["ctext"]))
    except MP.ParseError as e:
        fail("unparseable-message", "%s\n%s" % (e, first))
        return
    keys = [k for k, _ in parsed["entries"]]
    if keys != sorted(keys):
        fail("(4)not-sorted", "value lines are not sorted by their expression text: %r" % keys)
        return
    # (7) placeholders
    for ph in ("_ARGS", "_KWARGS"):
        if (ph in keys) != (ph in named):
            fail("(7)placeholder-%s" % ("missing" if ph in named else "listed"), "%s is %slisted although the condition %s it" % (
                ph, "" if ph in keys else "not ", "names" if ph in named else "does not name"))
            return
    # (6) unrepresentable values
    for k in keys:
        if k in ("fn", "kl", "md", "ident", "add", "kw", "tag", "first", "len", "sum", "sorted", "all", "any", "str", "Node"):
            fail("(6)unrepresentable-listed", "%r (a function/class/module) is listed" % k)
            return
    import re as _re

    for k, v in parsed["entries"]:
        txt = v if isinstance(v, str) else " ".join(t for _, t in v[1])
        if _re.match(r"^<(function|class|module|built-in (function|method)|bound method|method) ", txt) or _re.match(r"^<class '", txt):
            fail("(6)unrepresentable-value", "the line for %r shows a function / class / module: %s" % (k, txt[:80]))
            return
    # (5) every rendering through the contract's a_repr: reuse the CPython oracle of C06
    value, nodes, rec = OR.record(built["ctext"], dict(built["b"], **extra_bindings(case, named, built)), list(built["b"]) + named)
    c06.AREPR = make_arepr(case.get("limits"))
    try:
        before = set(ctx.failures)
        sub = core.Ctx("C20", "quick", 0)
        c06.judge(sub, dict(jcase, role=case.get("role", "require"), features=case.get("features", [])), built["ctext"], built["lam_params"],
                  dict(built["b"], **extra_bindings(case, named, built)), built["inputs"], nodes, rec, parsed, str(first))
        for b_, f in sub.failures.items():
            ctx.fail("(5)" + b_ + ("|custom-a_repr" if case.get("limits") else "|default-a_repr") + "|" + case.get("role", "require"),
                     jcase, f.message)
            return
    finally:
        c06.AREPR = None
    closure_history(ctx, case, built, fail)
    limits_history(ctx, case, built, fail)
    # non-triviality
    ar = c06.AREPR or make_arepr(case.get("limits")) or __import__("icontract")._globals.aRepr
    exceeds = any(("..." in v) for _, v in parsed["entries"] if isinstance(v, str))
    nt = exceeds or any(k in ("ss", "zs") for k in keys) or len(keys) >= 4
    ctx.count("limits:" + ("custom" if case.get("limits") else "default"))
    ctx.count("role:" + case.get("role", "require"))
    if exceeds:
        ctx.count("a_value_exceeds_a_limit")
    for nm in named:
        ctx.count("names:" + nm + ("(signature only)" if case.get("named_use") == "signature" else ""))
    ctx.case([built["ctext"], case["inputs"], case.get("limits"), named], nt, sample=lambda: {
        "condition": "lambda %s: %s" % (", ".join(built["lam_params"]), built["ctext"]), "limits": case.get("limits"),
        "message": ref.split("\n", 1)[1][:500] if "\n" in ref else ref})
    if collected is not None and len(collected) < 400:
        collected.append((case, ref))


NEW_CLOSURE = {"C": 13, "CS": "czq", "CL": [1, 2, 3, 9], "H": 201}


def closure_history(ctx, case, built, fail):
    """'independent of earlier calls': violate, re-bind the closure variables of the condition in the enclosing scope,
    violate again - the second message must be the one a fresh module gives whose closure had the new values from the start."""
    used = {n.id for n in ast.walk(ast.parse(built["ctext"], mode="eval")) if isinstance(n, ast.Name)} & set(GR.CLOSURE)
    old_line = "F = make(%(C)r, %(CS)r, %(CL)r, %(H)r)" % GR.CLOSURE_VALUES
    if not used or old_line not in built["text"]:
        return
    role = case.get("role", "require")
    order = list(case["perm"]) + [n for n in list(GR.ARGS) + ["Y"] if n not in case["perm"]]
    with RD.Module(built["text"]) as mod:
        RD.call(mod, role, case["async"], built["inputs"], order=order, npos=0)
        mod.mod.F.rebind(NEW_CLOSURE["C"], NEW_CLOSURE["CS"], list(NEW_CLOSURE["CL"]), NEW_CLOSURE["H"])
        second = RD.call(mod, role, case["async"], built["inputs"], order=order, npos=0)
    fresh_text = built["text"].replace(old_line, "F = make(%(C)r, %(CS)r, %(CL)r, %(H)r)" % NEW_CLOSURE)
    with RD.Module(fresh_text) as mod:
        fresh = RD.call(mod, role, case["async"], built["inputs"], order=order, npos=0)
    ctx.count("closure re-bound between two violations")

    def view(e):
        return normalise(str(e)) if type(e).__name__ == "ViolationError" else repr(type(e).__name__ if e is not None else None)

    if view(second) != view(fresh):
        fail("(2)message-depends-on-history", "after the closure variables %s were re-bound the message is\n%s\n--- a fresh "
             "function whose closure had these values from the start gives ---\n%s" % (sorted(used), view(second), view(fresh)))


def limits_history(ctx, case, built, fail):
    """'rendered through the contract's own a_repr': the limits of the Repr object handed to the decorator are changed
    AFTER the contract was created (and violated once); the next message must be the one of a fresh module whose Repr had
    those limits from the start."""
    if not case.get("limits"):
        return
    role = case.get("role", "require")
    order = list(case["perm"]) + [n for n in list(GR.ARGS) + ["Y"] if n not in case["perm"]]
    new_limits = {k: (3 if v > 3 else v + 4) for k, v in case["limits"].items()}
    with RD.Module(built["text"]) as mod:
        RD.call(mod, role, case["async"], built["inputs"], order=order, npos=0)
        for k, v in new_limits.items():
            setattr(mod.mod.AR, k, v)
        second = RD.call(mod, role, case["async"], built["inputs"], order=order, npos=0)
    fresh_text = built["text"].replace(prelude_for(case["limits"]), prelude_for(new_limits))
    if fresh_text == built["text"]:
        return
    with RD.Module(fresh_text) as mod:
        fresh = RD.call(mod, role, case["async"], built["inputs"], order=order, npos=0)
    ctx.count("a_repr limits changed between two violations")

    def view(e):
        return normalise(str(e)) if type(e).__name__ == "ViolationError" else repr(type(e).__name__ if e is not None else None)

    if view(second) != view(fresh):
        fail("(5)stale-a_repr-limits", "after the limits of the contract's a_repr were changed to %r the message is\n%s\n--- "
             "a fresh contract whose a_repr had these limits from the start gives ---\n%s" % (new_limits, view(second), view(fresh)))


def extra_bindings(case, named, built):
    b = {}
    names = list(GR.ARGS) + ["Y"]
    if "_ARGS" in named:
        b["_ARGS"] = ()
    if "_KWARGS" in named:
        order = list(case["perm"]) + [n for n in names if n not in case["perm"]]
        b["_KWARGS"] = {k: built["inputs"][k] for k in order}
    return b


@st.composite
def st_case(draw):
    # no zip()/enumerate() objects: their reprs carry an address, which a_repr may cut anywhere
    cond = draw(GR.st_condition(depth=3, structured=False))
    limits = None
    if draw(st.booleans()):
        limits = {"maxstring": draw(st.integers(5, 40)), "maxlist": draw(st.integers(1, 8)), "maxset": draw(st.integers(1, 8)),
                  "maxdict": draw(st.integers(1, 8)), "maxtuple": draw(st.integers(1, 8)), "maxlevel": draw(st.integers(1, 3)),
                  "maxother": draw(st.integers(10, 60)), "maxlong": draw(st.integers(6, 40))}
        if draw(st.integers(0, 3)) == 0:
            limits["_subclass"] = 1  # a Repr sub-class that renders int/bool/None/float in its own way
    names = list(GR.ARGS) + ["Y"]
    perm = draw(st.lists(st.sampled_from(names), min_size=2, max_size=4, unique=True))
    named = [n for n in ("_ARGS", "_KWARGS") if draw(st.integers(0, 5)) == 0]
    named_use = draw(st.sampled_from(["body", "signature"]))
    # _ARGS/_KWARGS are placeholders of function contracts; the other cases rotate over the three contract kinds
    role = "require" if named else draw(st.sampled_from(["require", "require", "ensure", "invariant"]))
    inputs = draw(GR.st_inputs(long_values=draw(st.booleans())))
    if draw(st.integers(0, 2)) == 0:
        # integers with more digits than maxlong allows (40 by default)
        inputs["x"] = draw(st.sampled_from([7 ** 60, -(3 ** 90), 10 ** 41, 12345678901234]))
        inputs["Y"] = draw(st.sampled_from([-(7 ** 55), 10 ** 45, 7]))
    return {"text": cond["text"], "params": cond["params"], "features": cond["features"], "role": role,
            "async": role != "invariant" and draw(st.integers(0, 4)) == 0, "inputs": inputs,
            "limits": limits, "perm": perm, "named": named, "named_use": named_use, "npos": draw(st.integers(1, 3)),
            "layout_kind": draw(st.sampled_from(["one-line", "one-line", "break-before-dot"]))}


# ---- worker processes (other hash seeds) ---------------------------------------------------------------------

def worker_main():
    core.setup_repo_path()
    cases = json.load(sys.stdin)
    out = []
    for case in cases:
        try:
            built = build(case)
            if built is None:
                out.append(None)
                continue
            runs = messages_for(case, built, [list(case["perm"]) + [n for n in list(GR.ARGS) + ["Y"] if n not in case["perm"]]], [0])
            exc = runs[0][1]
            out.append(normalise(str(exc)) if isinstance(exc, Exception) else repr(exc))
        except Exception as e:  # noqa
            out.append("WORKER-ERROR %r" % (e,))
    json.dump(out, sys.stdout)


def run_workers(ctx, collected):
    cases = [c for c, _ in collected]
    payload = json.dumps(cases)
    for hs in ("1", "4242", "random"):
        env = dict(os.environ)
        env["PYTHONHASHSEED"] = hs
        p = subprocess.run([sys.executable, "-B", "-c", "from vf.props import c20; c20.worker_main()"], input=payload,
                           capture_output=True, text=True, cwd=core.VERIF_DIR, env=env, timeout=1200)
        if p.returncode != 0:
            raise core.HarnessError("C20 worker (PYTHONHASHSEED=%s) failed: %s" % (hs, p.stderr[-2000:]))
        got = json.loads(p.stdout)
        for (case, ref), msg in zip(collected, got):
            if msg is not None and msg.startswith("WORKER-ERROR"):
                raise core.HarnessError(msg)
            ctx.evaluations += 1
            if msg != ref:
                jcase = dict(case)
                ctx.fail("(3)hash-seed-dependent|%s" % hs, jcase, "PYTHONHASHSEED=%s gives a different message:\n--- seed 0 ---\n%s\n--- "
                                                                   "seed %s ---\n%s" % (hs, ref, hs, msg))
                break
        ctx.count("worker_hashseed_%s_cases" % hs, len(got))


DIRECTED = [
    ("all(len(v) < 3 for v in [xs, ys])", {"xs": list(range(40)), "ys": [1]}, {"maxlist": 3}),
    ("all(len(v) < 3 for v in [xs, ys])", {"xs": list(range(40)), "ys": [1]}, None),
    ("all(v != s for v in [CS, s])", {"s": "abcxyz" * 12}, None),
    ("all(v != s for v in [CS, s])", {"s": "abcxyz" * 12}, {"maxstring": 12}),
    ("len(s) < 3", {"s": "abcxyz" * 20}, {"maxstring": 10}),
    ("len(ss) < 0", {"ss": [5, 3, 1, 9, 7, 11, 2]}, {"maxset": 3}),
    ("len(zs) < 0", {"zs": ["ab", "zz", "ca", "b", "x"]}, None),
    ("o.n > 1000", {}, {"maxother": 12}),
    # classes / functions that are the VALUE of a call, a subscript or a loop variable (not of a name) are left out as well
    ("type(x) == str", {}, None),
    ("ident(fn) is None", {}, None),
    ("[ident, add][0] is None", {}, None),
    ("{'k': kl}['k'] is None", {}, None),
    ("all(g is None for g in [ident, add])", {}, None),
    ("x.__class__ is str", {}, None),
]


def directed(ctx, collected):
    base = {"x": 2, "n": 3, "s": "ab", "xs": [1, 5, 2], "ys": [4], "ss": [1, 2], "d": {"ab": 1}, "t": [3, 4],
            "o": {"n": 1, "items": [2, 3, 4, 5], "child": {"n": 0, "items": [], "child": None}}, "m": [[1, 2], [3, 4]],
            "id": 3, "Y": -1000, "G": 5, "zs": ["a", "b"]}
    for text, over, limits in DIRECTED:
        inputs = dict(base)
        inputs.update(over)
        for role in ("require", "ensure", "invariant"):
            check_case(ctx, {"text": text, "params": GR.free_params(text), "features": ["directed"], "role": role,
                             "async": False, "inputs": inputs, "limits": limits, "perm": ["x", "s", "xs"], "named": [],
                             "npos": 2}, collected)


def repr_reentry(ctx):
    """The message of an invariant violation shows `self` through the class' own __repr__; a __repr__ that uses public
    members of the object is evaluated while the object is being checked. The same broken state must give the same
    message whether the violation is found after the constructor, a sync method, an async method or an assignment, on
    every instance and on every repetition - in particular no fallback rendering with a memory address."""
    import icontract
    from vf.progmodel.run import drive

    @icontract.invariant(lambda self: self.amount >= 0, "amount-not-negative", check_on=icontract.InvariantCheckEvent.ALL)
    class Account(icontract.DBC):
        def __init__(self, owner, amount):
            object.__setattr__(self, "owner", owner)
            object.__setattr__(self, "amount", amount)

        @property
        def label(self):
            return "%s:%d" % (self.owner, self.amount)

        def describe(self):
            return "Account(%s)" % self.label

        def __repr__(self):
            return self.describe()

        def take(self, n):
            object.__setattr__(self, "amount", self.amount - n)

        async def atake(self, n):
            object.__setattr__(self, "amount", self.amount - n)

    def msg(fn):
        try:
            fn()
            return "no violation"
        except icontract.ViolationError as e:
            return normalise(str(e))
        except BaseException as e:  # noqa
            return "%s: %s" % (type(e).__name__, e)

    seen = {}
    for rep in range(2):
        for owner in ("ann", "bob"):
            routes = {
                "constructor": lambda: Account(owner, -5),
                "sync method": lambda: Account(owner, 5).take(10),
                "async method": lambda: drive(Account(owner, 5).atake(10)),
                "assignment": lambda: setattr(Account(owner, 5), "amount", -5),
            }
            for route, fn in routes.items():
                m = msg(fn)
                ctx.case(["repr-reentry", rep, owner, route], True, sample={"route": route, "message": m[-200:]})
                want = "self was Account(%s:-5)" % owner
                if "0x" in m or want not in m:
                    ctx.fail("repr-reentry|%s" % route, {"repr_reentry": route},
                             "invariant violated through the %s: the message must show %r, got:\n%s" % (route, want, m))
                    continue
                key = (owner, route)
                if key in seen and seen[key] != m:
                    ctx.fail("repr-reentry|varies|%s" % route, {"repr_reentry": route}, "the message differs between repetitions:\n%s\n---\n%s" % (seen[key], m))
                seen[key] = m
        # the four routes agree on the value lines
    ctx.count("repr_reentry_routes", 16)


def run(ctx, tier, seed, shard, nshards):
    n = N_QUICK if tier == "quick" else N_THOROUGH
    collected = []

    @given(st_case())
    def test(case):
        check_case(ctx, case, collected)

    core.run_hypothesis(test, seed, n)
    if shard == 0:
        repr_reentry(ctx)
        container_limits(ctx)
    if shard == 0:
        directed(ctx, collected)
    run_workers(ctx, collected)


def container_limits(ctx, only=None):
    """Every container kind reprlib knows (list, tuple, set, frozenset, dict, deque, array) at sizes around the limits, as
    an argument and as the value of a call, under the DEFAULT representation (icontract.aRepr: 50 items per container, 256
    characters per string / other object - the values the package declares and documents) and under an own a_repr with a
    limit of 3 for every kind: the value line equals what an independently configured reprlib.Repr renders. x role."""
    import array
    import collections
    import reprlib
    import icontract

    def ref_repr(limit, long_):
        r = reprlib.Repr()
        for name in ("maxlist", "maxtuple", "maxset", "maxfrozenset", "maxdict", "maxdeque", "maxarray"):
            setattr(r, name, limit)
        r.maxstring = r.maxother = long_
        return r

    makers = {
        "list": list, "tuple": tuple, "set": set, "frozenset": frozenset, "dict": lambda xs: {x: x for x in xs},
        "deque": collections.deque, "array": lambda xs: array.array("i", xs),
    }
    for kind, mk in sorted(makers.items()):
        for size in (2, 7, 30, 50, 51, 90):
            for own in (False, True):
                key = [kind, size, own]
                if only is not None and only != key:
                    continue
                value = mk(range(100, 100 + size))
                want_repr = ref_repr(3, 40) if own else ref_repr(50, 256)
                kwargs = {"a_repr": ref_repr(3, 40)} if own else {}
                ident = lambda v: v  # noqa

                @icontract.require(lambda v: len(ident(v)) < 0, "too-long", **kwargs)
                def f(v):
                    return v

                try:
                    f(value)
                    msg = "no violation"
                except icontract.ViolationError as e:
                    msg = str(e)
                lines = msg.splitlines()
                want = ["ident(v) was " + want_repr.repr(value), "len(ident(v)) was %d" % size, "v was " + want_repr.repr(value)]
                got = [ln for ln in lines if " was " in ln]
                ctx.case(["container-limit"] + key, size > 6, sample={"directed": "%s of %d items, %s a_repr" % (kind, size, "own" if own else "default"),
                                                                      "line": (got or [""])[-1][:80]})
                ctx.count("directed:container-limits")
                if got != want:
                    ctx.fail("(5)container-limit|%s|%s" % (kind, "own" if own else "default"), {"container_limit": key},
                             "%s of %d items under the %s representation: expected the value lines %r, got %r" % (
                                 kind, size, "contract's own (3 items per container)" if own else "default (50 items per container)", want, got))


def replay(ctx, case):
    if case.get("container_limit"):
        before = ctx.evaluations
        container_limits(ctx, only=case["container_limit"])
        ctx.evaluations = before + 1
        return
    if case.get("repr_reentry"):
        before = ctx.evaluations
        repr_reentry(ctx)
        ctx.evaluations = before
        return
    check_case(ctx, case, None)
