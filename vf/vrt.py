"""Run-time support imported by rendered programs (DESIGN 3.1.3). The object ``V`` is the only thing they use.

Conditions, captures, error factories and bodies of a generated program do nothing but call into V, which logs an
event and answers from the *truth table* of the current run. Nothing here touches icontract.
"""
import threading


class Tok:
    """Labelled token compared by identity."""

    __slots__ = ("label", "__weakref__")

    def __init__(self, label):
        self.label = label

    def __repr__(self):
        return "<tok %s>" % (self.label,)


class TruthyBool:
    def __bool__(self):
        return True

    def __repr__(self):
        return "<TruthyBool>"


class FalsyBool:
    def __bool__(self):
        return False

    def __repr__(self):
        return "<FalsyBool>"


class TruthyLen:
    def __len__(self):
        return 1

    def __repr__(self):
        return "<TruthyLen>"


class FalsyLen:
    def __len__(self):
        return 0

    def __repr__(self):
        return "<FalsyLen>"


TRUTHY_CODES = ["T", "1", "x", "[0]", "Tb", "Tl"]
FALSY_CODES = ["F", "0", "''", "[]", "None", "Fb", "Fl"]


def value_of(code):
    return {
        "T": True, "1": 1, "x": "x", "[0]": [0], "Tb": TruthyBool(), "Tl": TruthyLen(),
        "F": False, "0": 0, "''": "", "[]": [], "None": None, "Fb": FalsyBool(), "Fl": FalsyLen(),
    }[code]


def is_truthy(code):
    return code in TRUTHY_CODES


class _NoYield:
    """Awaitable that completes at once."""

    def __await__(self):
        return None
        yield


class Yield:
    """Awaitable that suspends exactly once, handing ``tag`` to whoever drives the coroutine."""

    def __init__(self, tag):
        self.tag = tag

    def __await__(self):
        yield self.tag
        return None


class ProgError(Exception):
    """Custom Exception raised by generated bodies / used as custom error class."""


class ProgBaseError(BaseException):
    """Custom BaseException (not Exception); falsy (see ErrA)."""

    def __bool__(self):
        return False


class ProgRecursionError(RecursionError):
    """A sub-class of an exception type the library might treat specially."""


class ErrA(Exception):
    # an exception object may well be falsy (here: a container-like error without items); it is raised all the same
    def __len__(self):
        return 0


class ErrB(BaseException):
    def __bool__(self):
        return False


EXC_POOL = {
    "Exception": Exception, "KeyError": KeyError, "ProgError": ProgError, "KeyboardInterrupt": KeyboardInterrupt,
    "SystemExit": SystemExit, "GeneratorExit": GeneratorExit, "ProgBaseError": ProgBaseError,
    "StopIteration": StopIteration, "RecursionError": RecursionError, "CancelledError": None,
    "TypeError": TypeError, "AttributeError": AttributeError, "ValueError": ValueError,
    "ProgRecursionError": ProgRecursionError,
}


class Run:
    """State of one run (one operation sequence under one truth table)."""

    def __init__(self, truth=None, bodies=None, event_budget=100000):
        self.truth = truth or {}  # cid -> list of codes (index = evaluation count, last repeats)
        self.counts = {}
        self.log = []
        self.bodies = bodies or {}  # fname -> body spec override
        self.tokens = {}  # label -> object (results, captures, errors, exceptions)
        self.by_id = {}
        self.event_budget = event_budget
        self.hooks = {}  # (kind, id) -> callable run before answering (scripts / faults / gates)
        self.instances = {}
        self.errinst = {}
        self.exceptions = []

    def tok(self, label, factory=None):
        t = self.tokens.get(label)
        if t is None:
            t = factory() if factory else Tok(label)
            self.tokens[label] = t
            self.by_id[id(t)] = label
        return t

    def label_of(self, obj):
        return self.by_id.get(id(obj))

    def event(self, ev):
        self.log.append(ev)
        if len(self.log) > self.event_budget:
            raise RecursionError("vf: event budget exceeded")  # treated as non-termination by the runner


class _V:
    def __init__(self):
        self._tl = threading.local()
        self._global = None

    # the current run is thread-local with a global fallback (worker threads of C12 set it explicitly)
    @property
    def run(self):
        r = getattr(self._tl, "run", None)
        return r if r is not None else self._global

    def begin(self, run, global_=False):
        self._tl.run = run
        if global_:
            self._global = run

    def end(self):
        self._tl.run = None
        self._global = None

    def _recv(self, run, kw):
        # what the callback received: name -> label of a known token or a short type tag
        out = {}
        for k, v in kw.items():
            if k == "OLD":
                out[k] = {n: (run.label_of(x) or type(x).__name__) for n, x in sorted(vars(v).items())}
            elif k in ("self", "cls"):
                out[k] = k
            else:
                out[k] = run.label_of(v) or ("inst" if type(v).__module__.startswith("vfprog_") else type(v).__name__)
        return out

    def _hook(self, run, kind, ident, kw):
        h = run.hooks.get((kind, ident))
        if h is not None:
            h(run, kw)

    def awaited(self, kind, ident):
        """The awaitable handed out by condition / capture ``ident`` is being awaited."""
        self._hook(self.run, "await-" + kind, ident, {})

    # -- conditions --------------------------------------------------------
    def c(self, role, cid, /, **kw):
        run = self.run
        n = run.counts.get(cid, 0)
        run.counts[cid] = n + 1
        run.event((role, cid, self._recv(run, kw)))
        self._hook(run, "cond", cid, kw)
        tf = run.hooks.get(("truthfn",))
        if tf is not None:
            code = tf(run, cid, kw)
        else:
            seq = run.truth.get(cid) or ["T"]
            code = seq[n] if n < len(seq) else seq[-1]
        val = value_of(code)
        w = run.hooks.get(("wrap", cid))
        if w is not None:
            return w(run, val)
        return val

    # -- captures -----------------------------------------------------------
    def cap(self, sid, /, **kw):
        run = self.run
        n = run.counts.get(("cap", sid), 0)
        run.counts[("cap", sid)] = n + 1
        run.event(("cap", sid, self._recv(run, kw)))
        self._hook(run, "cap", sid, kw)
        val = run.tok("cap%d.%d" % (sid, n))
        w = run.hooks.get(("wrapcap", sid))
        if w is not None:
            return w(run, val)
        return val

    # -- error factories / instances / classes -----------------------
    def err(self, cid, /, **kw):
        run = self.run
        n = run.counts.get(("err", cid), 0)
        run.counts[("err", cid)] = n + 1
        run.event(("err", cid, self._recv(run, kw)))
        self._hook(run, "err", cid, kw)
        bad = run.hooks.get(("errret", cid))
        if bad is not None:
            return bad(run)
        # every third factory hands out an exception that derives from BaseException only (any exception object a
        # factory returns is raised as it is)
        kind = ProgBaseError if cid % 3 == 0 else ProgError
        return run.tok("err%d.%d" % (cid, n), lambda: kind("factory error of #%d" % cid))

    # -- bodies ------------------------------------------------------------
    def body(self, fname, spec, loc):
        run = self.run
        spec = run.bodies.get(fname, spec)
        recv = self._recv(run, {k: v for k, v in loc.items() if k not in ("__class__",)})
        run.event(("body", fname, recv))
        self._hook(run, "body", fname, loc)
        for pname, how in (spec.get("mut") or {}).items():
            if pname in loc and how == "mutate" and isinstance(loc[pname], list):
                loc[pname].append("mutated")
        if "raise" in spec:
            n = run.counts.get(("exc", fname), 0)
            run.counts[("exc", fname)] = n + 1
            cls = EXC_POOL[spec["raise"]]
            if cls is None:
                import asyncio

                cls = asyncio.CancelledError
            raise run.tok("exc:%s.%d" % (fname, n), lambda: cls("raised by body of %s" % fname))
        ret = spec.get("ret", "obj")
        n = run.counts.get(("ret", fname), 0)
        run.counts[("ret", fname)] = n + 1
        if ret == "obj":
            return run.tok("ret:%s.%d" % (fname, n))
        if ret == "arg":
            return loc.get("x")
        if ret == "list":
            return run.tok("ret:%s.%d" % (fname, n), lambda: ["r"])
        if ret == "emptylist":
            return run.tok("ret:%s.%d" % (fname, n), lambda: [])
        return {"None": None, "0": 0, "''": "", "False": False, "NotImplemented": NotImplemented, "Ellipsis": Ellipsis}[ret]

    # -- gates: suspension points owned by the harness (C11 cancellation, C12 schedules) ---------------
    def gate(self, kind, ident):
        run = self.run
        g = run.hooks.get(("gate", kind, ident)) if run is not None else None
        if g is None:
            return _NoYield()
        return g(run)

    def note(self, *ev):
        self.run.event(tuple(ev))


V = _V()
V.NOARG = Tok("NOARG")  # default of callback parameters in rendered programs: must never be what a callback receives
