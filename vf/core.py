"""Runner plumbing shared by all property checks: evidence, failures/buckets, known findings, replay, sharding.

Harness code never uses ``assert`` for verdicts (C15 runs harness code under -O).
"""
import hashlib
import json
import os
import subprocess
import sys
import threading
import time
import traceback

VERIF_DIR = os.path.dirname(os.path.dirname(os.path.abspath(__file__)))
EVIDENCE_DIR = os.path.join(VERIF_DIR, "evidence")
REPLAY_DIR = os.path.join(VERIF_DIR, "replays")
KNOWN_FILE = os.path.join(VERIF_DIR, "known_findings.json")


class HarnessError(Exception):
    """Something is wrong with the harness (not with icontract): exit code 2, never a VIOLATION."""


def setup_repo_path():
    """Put $VERIF_REPO first on sys.path and make sure icontract is imported from there."""
    repo = os.path.abspath(os.environ.get("VERIF_REPO", "/repo"))
    if repo not in sys.path[:1]:
        sys.path.insert(0, repo)
    import icontract  # noqa

    f = os.path.abspath(icontract.__file__)
    if not f.startswith(repo + os.sep):
        raise HarnessError("icontract imported from %s, expected under %s" % (f, repo))
    return repo


def h64(obj):
    """Stable 64-bit hash of a JSON-able value (no dependence on PYTHONHASHSEED)."""
    s = json.dumps(obj, sort_keys=True, default=str, separators=(",", ":"))
    return int.from_bytes(hashlib.blake2b(s.encode("utf8"), digest_size=8).digest(), "big")


def jsonable(obj, depth=0):
    if depth > 12:
        return "..."
    if isinstance(obj, (str, int, float, bool)) or obj is None:
        return obj
    if isinstance(obj, dict):
        return {str(k): jsonable(v, depth + 1) for k, v in obj.items()}
    if isinstance(obj, (list, tuple, set, frozenset)):
        return [jsonable(v, depth + 1) for v in obj]
    return repr(obj)


class Failure:
    def __init__(self, bucket, case, message, size=None):
        self.bucket = bucket  # short string naming the oracle clause + structural signature
        self.case = case  # JSON-able case (replayable)
        self.message = message
        self.size = size if size is not None else len(json.dumps(jsonable(case), default=str))


class Ctx:
    """Per-run collector. One per process (shards merge their dumps)."""

    MAX_SAMPLES_FIRST = 3
    MAX_SAMPLES_SMALL = 3

    def __init__(self, prop, tier, seed, level="exploration"):
        self.prop = prop
        self.tier = tier
        self.seed = seed
        self.level = level
        self.evaluations = 0
        self.nontrivial = set()
        self.hist = {}
        self.samples_first = []
        self.samples_small = []  # (hash, sample)
        self.failures = {}  # bucket -> Failure (smallest seen)
        self.failure_counts = {}
        self.known_seen = {}  # finding id -> count
        self.excluded_by_known = 0
        self.rule = ""
        self.assumptions = []
        self.extra = {}
        self.exhaustive = None
        self.t0 = time.time()
        self.notes = []

    # -- evidence ---------------------------------------------------------
    def case(self, key, nontrivial, sample=None, n=1):
        """Count ``n`` executed evaluations belonging to one generated case.

        ``key`` is the canonical (JSON-able) form of the case, hashed for distinctness;
        ``sample`` (lazy callable or value) is what gets written to the evidence samples.
        """
        self.evaluations += n
        if nontrivial:
            hv = key if isinstance(key, int) else h64(key)
            if hv not in self.nontrivial:
                self.nontrivial.add(hv)
                if sample is not None:
                    if len(self.samples_first) < self.MAX_SAMPLES_FIRST:
                        self.samples_first.append(jsonable(sample() if callable(sample) else sample))
                    elif len(self.samples_small) < self.MAX_SAMPLES_SMALL or hv < self.samples_small[-1][0]:
                        self.samples_small.append((hv, jsonable(sample() if callable(sample) else sample)))
                        self.samples_small.sort(key=lambda t: t[0])
                        del self.samples_small[self.MAX_SAMPLES_SMALL:]

    def count(self, label, n=1):
        self.hist[label] = self.hist.get(label, 0) + n

    # -- failures ---------------------------------------------------------
    def fail(self, bucket, case, message):
        f = Failure(bucket, case, message)
        self.failure_counts[bucket] = self.failure_counts.get(bucket, 0) + 1
        old = self.failures.get(bucket)
        if old is None or f.size < old.size:
            self.failures[bucket] = f

    def known(self, finding_id, n=1):
        self.known_seen[finding_id] = self.known_seen.get(finding_id, 0) + n

    # -- (de)serialisation for shards -------------------------------------
    def dump(self):
        return {
            "evaluations": self.evaluations,
            "nontrivial": sorted(self.nontrivial),
            "hist": self.hist,
            "samples_first": self.samples_first,
            "samples_small": self.samples_small,
            "failures": {b: {"case": jsonable(f.case), "message": f.message, "size": f.size}
                         for b, f in self.failures.items()},
            "failure_counts": self.failure_counts,
            "known_seen": self.known_seen,
            "excluded_by_known": self.excluded_by_known,
            "rule": self.rule,
            "assumptions": self.assumptions,
            "extra": self.extra,
            "exhaustive": self.exhaustive,
            "notes": self.notes,
        }

    def merge(self, d):
        self.evaluations += d["evaluations"]
        self.nontrivial.update(d["nontrivial"])
        for k, v in d["hist"].items():
            self.hist[k] = self.hist.get(k, 0) + v
        for s in d["samples_first"]:
            if len(self.samples_first) < self.MAX_SAMPLES_FIRST:
                self.samples_first.append(s)
        for hv, s in d["samples_small"]:
            self.samples_small.append((hv, s))
        self.samples_small.sort(key=lambda t: t[0])
        del self.samples_small[self.MAX_SAMPLES_SMALL:]
        for b, fd in d["failures"].items():
            old = self.failures.get(b)
            if old is None or fd["size"] < old.size:
                self.failures[b] = Failure(b, fd["case"], fd["message"], fd["size"])
        for b, c in d["failure_counts"].items():
            self.failure_counts[b] = self.failure_counts.get(b, 0) + c
        for k, v in d["known_seen"].items():
            self.known_seen[k] = self.known_seen.get(k, 0) + v
        self.excluded_by_known += d["excluded_by_known"]
        self.rule = self.rule or d["rule"]
        for a in d["assumptions"]:
            if a not in self.assumptions:
                self.assumptions.append(a)
        for k, v in d["extra"].items():
            if isinstance(v, (int, float)) and isinstance(self.extra.get(k), (int, float)):
                self.extra[k] += v
            else:
                self.extra.setdefault(k, v)
        if d["exhaustive"] is not None:
            self.exhaustive = d["exhaustive"] if self.exhaustive is None else (self.exhaustive and d["exhaustive"])
        self.notes.extend(d.get("notes", []))


# -- known findings -------------------------------------------------------------

def load_known():
    if not os.path.exists(KNOWN_FILE):
        return []
    with open(KNOWN_FILE) as fh:
        data = json.load(fh)
    return data.get("findings", [])


def open_findings(prop):
    return [f for f in load_known() if f.get("property") == prop and f.get("status") == "open"]


def fixed_findings(prop):
    return [f for f in load_known() if f.get("property") == prop and f.get("status") == "fixed"]


# -- run helpers ------------------------------------------------------------------

def in_fresh_thread(fn, *args, stack_mb=None, **kwargs):
    """Run fn in a new thread (empty contextvars context); re-raise what it raised."""
    box = {}

    def target():
        try:
            box["r"] = fn(*args, **kwargs)
        except BaseException as e:  # noqa - handed back to the caller
            box["e"] = e

    if stack_mb:
        old = threading.stack_size(stack_mb * 1024 * 1024)
    try:
        t = threading.Thread(target=target)
        t.start()
    finally:
        if stack_mb:
            threading.stack_size(old)
    t.join()
    if "e" in box:
        raise box["e"]
    return box.get("r")


def hyp_settings(max_examples, stateful_step_count=None):
    from hypothesis import settings, HealthCheck, Phase

    kw = dict(
        max_examples=max_examples,
        database=None,
        deadline=None,
        derandomize=False,
        report_multiple_bugs=False,
        suppress_health_check=list(HealthCheck),
        phases=[Phase.generate],
    )
    if stateful_step_count is not None:
        kw["stateful_step_count"] = stateful_step_count
    return settings(**kw)


def run_hypothesis(test, seed, max_examples):
    """Run a @given test with the pinned seed; the test itself must not raise for oracle failures
    (it records them in the Ctx) - an exception escaping here is a harness error."""
    from hypothesis import seed as hseed

    wrapped = hseed(seed)(hyp_settings(max_examples)(test))
    try:
        wrapped()
    except HarnessError:
        raise
    except BaseException as e:  # noqa
        # keep the report short: Hypothesis attaches the whole falsifying example as a note
        tb = "".join(traceback.format_tb(e.__traceback__))
        lines = [ln for ln in tb.splitlines() if len(ln) < 400]
        raise HarnessError("exception inside the harness: %s\n%s" % (repr(e)[:800], "\n".join(lines[-30:])))


def shard_seed(seed, shard):
    return seed * 1_000_003 + shard


def write_replay(prop, failure):
    os.makedirs(REPLAY_DIR, exist_ok=True)
    body = {"property": prop, "bucket": failure.bucket, "message": failure.message, "case": jsonable(failure.case)}
    sha = hashlib.sha1(json.dumps(body, sort_keys=True, default=str).encode()).hexdigest()[:12]
    path = os.path.join(REPLAY_DIR, "%s-%s.json" % (prop, sha))
    with open(path, "w") as fh:
        json.dump(body, fh, indent=1, sort_keys=True, default=str)
    return path


def write_evidence(ctx, violations):
    os.makedirs(EVIDENCE_DIR, exist_ok=True)
    samples = list(ctx.samples_first) + [s for _, s in ctx.samples_small]
    cov = {
        "evaluations": ctx.evaluations,
        "distinct_nontrivial": len(ctx.nontrivial),
        "rule": ctx.rule,
        "samples": samples,
        "class_histogram": dict(sorted(ctx.hist.items())),
        "excluded_by_known_findings": ctx.excluded_by_known,
        "known_findings_seen": ctx.known_seen,
        "failure_buckets": {b: ctx.failure_counts.get(b, 0) for b in ctx.failures},
    }
    if ctx.exhaustive is not None:
        cov["exhaustive"] = bool(ctx.exhaustive)
    cov.update(ctx.extra)
    if ctx.notes:
        cov["notes"] = ctx.notes[:20]
    ev = {
        "property_id": ctx.prop,
        "tier": ctx.tier,
        "seed": ctx.seed,
        "level": ctx.level,
        "coverage": cov,
        "assumptions": ctx.assumptions,
        "wall_s": round(time.time() - ctx.t0, 3),
        "violations": violations,
    }
    path = os.path.join(EVIDENCE_DIR, "%s.json" % ctx.prop)
    tmp = path + ".tmp"
    with open(tmp, "w") as fh:
        json.dump(ev, fh, indent=1, default=str)
    os.replace(tmp, path)
    return path


def run_shards(prop, tier, seed, nshards, extra_args=()):
    """Start nshards child interpreters of this check and return their dumps."""
    import tempfile

    tmpdir = tempfile.mkdtemp(prefix="vf_shards_")
    procs = []
    try:
        for k in range(nshards):
            out = os.path.join(tmpdir, "shard%d.json" % k)
            cmd = [sys.executable, "-B", "-m", "vf.cli", prop, "--tier", tier, "--seed", str(seed),
                   "--shard", "%d/%d" % (k, nshards), "--dump", out] + list(extra_args)
            procs.append((k, out, subprocess.Popen(cmd, cwd=VERIF_DIR, stdout=subprocess.PIPE,
                                                   stderr=subprocess.PIPE, text=True)))
        dumps = []
        for k, out, p in procs:
            so, se = p.communicate()
            if p.returncode != 0 or not os.path.exists(out):
                raise HarnessError("shard %d failed rc=%s\n%s\n%s" % (k, p.returncode, so[-2000:], se[-4000:]))
            with open(out) as fh:
                dumps.append(json.load(fh))
        return dumps
    finally:
        import shutil

        for _, _, p in procs:
            if p.poll() is None:
                p.kill()
        shutil.rmtree(tmpdir, ignore_errors=True)


def fuzz_available():
    return os.path.isdir(os.path.join(VERIF_DIR, ".deps", "atheris"))


def run_fuzz(prop, seed, nprocs, runs):
    """Coverage-guided stage (vf/fuzz.py): nprocs atheris children, each a libFuzzer campaign of `runs` executions of the
    property's Hypothesis test through fuzz_one_input; returns their Ctx dumps."""
    import tempfile

    tmpdir = tempfile.mkdtemp(prefix="vf_fuzz_")
    procs = []
    try:
        for k in range(nprocs):
            out = os.path.join(tmpdir, "fuzz%d.json" % k)
            cmd = [sys.executable, "-B", "-m", "vf.fuzz", prop, str(runs), str(shard_seed(seed, 100 + k)), out]
            procs.append((k, out, subprocess.Popen(cmd, cwd=VERIF_DIR, stdout=subprocess.PIPE,
                                                   stderr=subprocess.PIPE, text=True)))
        dumps = []
        for k, out, p in procs:
            so, se = p.communicate()
            if p.returncode != 0 or not os.path.exists(out):
                raise HarnessError("fuzz child %d failed rc=%s\n%s\n%s" % (k, p.returncode, so[-2000:], se[-4000:]))
            with open(out) as fh:
                dumps.append(json.load(fh))
        return dumps
    finally:
        import shutil

        for _, _, p in procs:
            if p.poll() is None:
                p.kill()
        shutil.rmtree(tmpdir, ignore_errors=True)


def fmt_exc(e):
    return "".join(traceback.format_exception(type(e), e, e.__traceback__))[-3000:]
