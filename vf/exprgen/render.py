"""Render a condition text into a module with a decorated callable (roles: require / ensure / invariant; def / async)."""
import ast
import hashlib
import itertools
import linecache
import os
import sys
import types

from vf.exprgen import grammar as GR
from vf.progmodel.run import scratch_dir

_counter = itertools.count()
FUNC_PARAMS = "x, n, s, xs, ys, ss, d, t, o, m, id=None, G=5, zs=(), q=None, Y=7, fn=ident, kl=Node, md=icontract"

HEADER = """import icontract
from vf.exprlib import ident, add, kw, tag, first, p, Node, Mat, Q, mkq, MatStr
G = %(G)r
GS = %(GS)r
GL = %(GL)r
Y = %(Y)r
H = %(H)r
d0 = %(d0)r
L = %(L)r

"""


class SelfRewrite(ast.NodeTransformer):
    """x -> self.x for free parameter names (invariant role)."""

    def __init__(self, names):
        self.names = set(names)
        self.bound = []

    def visit_comp(self, node):
        tg = set()
        for gen in node.generators:
            for n in ast.walk(gen.target):
                if isinstance(n, ast.Name):
                    tg.add(n.id)
        node.generators[0].iter = self.visit(node.generators[0].iter)
        self.bound.append(tg)
        for i, gen in enumerate(node.generators):
            if i > 0:
                gen.iter = self.visit(gen.iter)
            gen.ifs = [self.visit(c) for c in gen.ifs]
        if isinstance(node, ast.DictComp):
            node.key = self.visit(node.key)
            node.value = self.visit(node.value)
        else:
            node.elt = self.visit(node.elt)
        self.bound.pop()
        return node

    visit_ListComp = visit_SetComp = visit_DictComp = visit_GeneratorExp = visit_comp

    def visit_Name(self, node):
        if isinstance(node.ctx, ast.Load) and node.id in self.names and not any(node.id in b for b in self.bound):
            return ast.copy_location(ast.Attribute(value=ast.Name(id="self", ctx=ast.Load()), attr=node.id, ctx=ast.Load()), node)
        return node


class Rename(SelfRewrite):
    def __init__(self, old, new):
        super().__init__([old])
        self.new = new

    def visit_Name(self, node):
        if isinstance(node.ctx, ast.Load) and node.id in self.names and not any(node.id in b for b in self.bound):
            return ast.copy_location(ast.Name(id=self.new, ctx=ast.Load()), node)
        return node


def adapt(text, params, role):
    """Adapt a condition over function arguments to the role. Returns (text, lambda params)."""
    if role == "invariant":
        tree = SelfRewrite(params).visit(ast.parse(text, mode="eval"))
        return ast.unparse(ast.fix_missing_locations(tree)), ["self"]
    if role == "ensure" and "x" in params:
        tree = Rename("x", "result").visit(ast.parse(text, mode="eval"))
        return ast.unparse(ast.fix_missing_locations(tree)), sorted((set(params) - {"x"}) | {"result"})
    return text, list(params)


def with_condition_defaults(text, lam_params, role):
    """Append `name=default` for the names of GR.DEFAULTED the condition loads (not for invariants: they take self only)."""
    if role == "invariant":
        return list(lam_params)
    used = {n.id for n in ast.walk(ast.parse(text, mode="eval")) if isinstance(n, ast.Name)}
    extra = ["%s=%r" % (k, v) for k, v in GR.DEFAULT_VALUES.items() if k in used]
    return [p for p in lam_params if "=" not in p] + [p for p in lam_params if "=" in p] + [e for e in extra if e not in lam_params]


def module_text(cond_text, lam_params, role="require", is_async=False, description="the-desc", layout=None, error=None,
                a_repr=None, nest="func", above=(), below=(), prelude=""):
    """Return (module text, first line of the decorator, last line of the decorator, expected scope name)."""
    head = HEADER % GR.GLOBAL_VALUES + prelude
    lam_params = with_condition_defaults(cond_text, lam_params, role)
    lam = "lambda %s: %s" % (", ".join(lam_params), cond_text)
    extra = ""
    if error:
        extra += ", error=%s" % error
    if a_repr:
        extra += ", a_repr=%s" % a_repr
    deco_name = {"require": "require", "ensure": "ensure", "invariant": "invariant"}[role]
    if layout is None:
        deco = ["@icontract.%s(%s, %r%s)" % (deco_name, lam, description, extra)]
    else:
        deco = layout(deco_name, lam_params, cond_text, description, extra)
    lines = head.split("\n")
    if nest == "module":
        for k, v in GR.CLOSURE_VALUES.items():
            lines.append("%s = %r" % (k, v))
        ind = ""
        scope = "<module>"
    else:
        lines.append("def make(C, CS, CL, H):")
        ind = "    "
        scope = "make"
        # the enclosing scope can re-bind the closure variables of the condition later on (F.rebind(...))
        lines += [ind + "def _rebind(c, cs, cl, h):", ind + "    nonlocal C, CS, CL, H", ind + "    C, CS, CL, H = c, cs, cl, h"]
        if nest == "class" and role != "invariant":
            lines.append(ind + "class Holder:")
            ind += "    "
            scope = "Holder"
            lines.append(ind + "@staticmethod")
    for a in above:
        lines.append(ind + a)
    start = len(lines) + 1
    for d in deco:
        if d.startswith("<<"):
            lines.append(d[2:])  # a continuation line written at column 0, whatever the nesting of the decorator is
        else:
            lines.append((ind + d) if d.strip() else "")
    end = len(lines)
    for b in below:
        lines.append(ind + b)
    if role == "invariant":
        lines.append(ind + "class K:")
        lines.append(ind + "    def __init__(self, %s):" % FUNC_PARAMS)
        for a in list(GR.ARGS) + ["Y"]:
            lines.append(ind + "        self.%s = %s" % (a, a))
        lines.append(ind + "    def __repr__(self):")
        lines.append(ind + "        return 'K()'")
        ret = "K"
    else:
        lines.append(ind + "%sdef f(%s):" % ("async " if is_async else "", FUNC_PARAMS))
        lines.append(ind + "    return x")
        ret = "f"
    if nest == "module":
        lines.append("")
        lines.append("F = %s" % ret)
    elif nest == "class" and role != "invariant":
        lines.append("    Holder.f.rebind = _rebind")
        lines.append("    return Holder.f")
        lines.append("")
        lines.append("F = make(%(C)r, %(CS)r, %(CL)r, %(H)r)" % GR.CLOSURE_VALUES)
    else:
        lines.append("    %s.rebind = %s" % (ret, "staticmethod(_rebind)" if role == "invariant" else "_rebind"))
        lines.append("    return %s" % ret)
        lines.append("")
        lines.append("F = make(%(C)r, %(CS)r, %(CL)r, %(H)r)" % GR.CLOSURE_VALUES)
    return "\n".join(lines) + "\n", start, end, scope


class Module:
    def __init__(self, text, path=None):
        self.text = text
        h = hashlib.sha1(text.encode()).hexdigest()[:10]
        self.modname = "vfexpr_%s_%d" % (h, next(_counter))
        # ``path``: write the module where another one was before (a source file edited and imported again)
        self.path = path or os.path.join(scratch_dir(), self.modname + ".py")
        with open(self.path, "w") as fh:
            fh.write(text)
        self.mod = types.ModuleType(self.modname)
        self.mod.__file__ = self.path
        sys.modules[self.modname] = self.mod
        exec(compile(text, self.path, "exec"), self.mod.__dict__)

    def close(self):
        sys.modules.pop(self.modname, None)
        linecache.cache.pop(self.path, None)
        try:
            os.unlink(self.path)
        except OSError:
            pass

    def __enter__(self):
        return self

    def __exit__(self, *a):
        self.close()


def shadow_globals(mod, shadow):
    """Bind module-level globals that are named like the callable's PARAMETERS to other values (``shadow``: raw inputs).

    A lambda parameter hides a global of the same name, so a correct evaluation never reads these; an evaluation that
    looks names up in the wrong order does."""
    if not shadow:
        return
    built = GR.build_inputs(shadow)
    for k in GR.ARGS:
        if k in built:
            mod.mod.__dict__[k] = built[k]


def call(mod, role, is_async, inputs, order=None, npos=0):
    """Invoke the decorated callable; returns the exception raised (or None).

    ``order``: keyword order of the arguments; ``npos``: how many leading parameters are passed positionally."""
    from vf.progmodel.run import drive

    names = list(GR.ARGS) + ["Y"]
    pos = [inputs[k] for k in names[:npos]]
    rest = [k for k in (order or names) if k not in names[:npos]]
    args = {k: inputs[k] for k in rest}
    try:
        r = mod.mod.F(*pos, **args)
        if is_async:
            drive(r)
        return None
    except BaseException as e:  # noqa
        return e
