"""CPython as the oracle (DESIGN 3.3): evaluate an instrumented copy of the condition and record, for every
sub-expression evaluated in the lambda's own scope, whether Python evaluated it and to which object."""
import ast
import builtins

from vf import exprlib
from vf.exprgen import grammar as GR

LISTED_TYPES = (ast.Name, ast.Attribute, ast.Call, ast.Subscript, ast.ListComp, ast.SetComp, ast.DictComp)


class Instrument(ast.NodeTransformer):
    """Wrap expression nodes of the outer scope into __rec(i, node). Comprehension bodies are left alone
    (only the first iterable belongs to the enclosing scope)."""

    def __init__(self):
        self.nodes = {}  # i -> original node (un-instrumented copy)
        self.n = 0

    def wrap(self, node, new):
        i = self.n
        self.n += 1
        self.nodes[i] = node
        return ast.copy_location(ast.Call(func=ast.Name(id="__rec", ctx=ast.Load()),
                                          args=[ast.Constant(value=i), new], keywords=[]), node)

    def generic_expr(self, node):
        import copy

        orig = copy.deepcopy(node)
        new = self.generic_visit(node)
        return self.wrap(orig, new)

    def visit_Name(self, node):
        if not isinstance(node.ctx, ast.Load):
            return node
        return self.wrap(node, node)

    def visit_Constant(self, node):
        return node

    def visit_Starred(self, node):
        node.value = self.visit(node.value)
        return node

    def visit_keyword(self, node):
        node.value = self.visit(node.value)
        return node

    def visit_Slice(self, node):
        for f in ("lower", "upper", "step"):
            v = getattr(node, f)
            if v is not None:
                setattr(node, f, self.visit(v))
        return node

    def visit_JoinedStr(self, node):
        import copy

        return self.wrap(copy.deepcopy(node), node)  # interior left alone (only argument names are generated there)

    def visit_FormattedValue(self, node):
        return node

    def visit_NamedExpr(self, node):
        import copy

        orig = copy.deepcopy(node)
        node.value = self.visit(node.value)
        return self.wrap(orig, node)

    def visit_comp(self, node):
        import copy

        # nothing lexically inside a comprehension is instrumented (weaker reading of "outside a comprehension
        # scope": also the first iterable, although Python evaluates it in the enclosing scope)
        return self.wrap(copy.deepcopy(node), node)

    visit_ListComp = visit_SetComp = visit_DictComp = visit_GeneratorExp = visit_comp

    def visit_Lambda(self, node):
        return node

    def visit_Subscript(self, node):
        import copy

        orig = copy.deepcopy(node)
        node.value = self.visit(node.value)
        if isinstance(node.slice, ast.Tuple):
            node.slice.elts = [self.visit(e) for e in node.slice.elts]
        else:
            node.slice = self.visit(node.slice)
        return self.wrap(orig, node)

    def visit_Tuple(self, node):
        return self.generic_expr(node)

    def visit(self, node):
        if isinstance(node, (ast.Name, ast.Constant, ast.Starred, ast.keyword, ast.Slice, ast.JoinedStr,
                             ast.FormattedValue, ast.NamedExpr, ast.ListComp, ast.SetComp, ast.DictComp,
                             ast.GeneratorExp, ast.Lambda, ast.Subscript)):
            return super().visit(node)
        if isinstance(node, ast.expr):
            return self.generic_expr(node)
        return super().visit(node)


class Record:
    def __init__(self):
        self.values = {}  # i -> last value
        self.order = []

    def rec(self, i, v):
        self.values[i] = v
        self.order.append(i)
        return v


def namespace(inputs, params):
    """The bindings under which the condition is evaluated: parameters > closure > globals > builtins."""
    ns = {}
    ns.update(GR.GLOBAL_VALUES)
    for k in ("ident", "add", "kw", "tag", "first", "p", "mkq"):
        ns[k] = getattr(exprlib, k)
    ns.update(GR.CLOSURE_VALUES)
    for k in params:
        ns[k] = inputs[k]
    return ns


def evaluate(text, inputs, params):
    """-> ('ok', value) | ('raises', exc)"""
    ns = namespace(inputs, params)
    # one dictionary used as globals: comprehension scopes nested in the expression must see the bindings too
    g = {"__builtins__": builtins}
    g.update(ns)
    try:
        return ("ok", eval(compile(ast.parse(text, mode="eval"), "<cond>", "eval"), g))
    except Exception as e:  # noqa
        return ("raises", e)


def record(text, inputs, params):
    """Evaluate the instrumented copy. Returns (value, {i: node}, Record)."""
    tree = ast.parse(text, mode="eval")
    ins = Instrument()
    new = ins.visit(tree)
    ast.fix_missing_locations(new)
    r = Record()
    ns = namespace(inputs, params)
    ns["__rec"] = r.rec
    # comprehensions look names up in globals: put everything into one dict used as globals
    g = {"__builtins__": builtins}
    g.update(ns)
    value = eval(compile(new, "<cond-instrumented>", "eval"), g)
    return value, ins.nodes, r


def dump(node_or_text):
    if isinstance(node_or_text, str):
        node_or_text = ast.parse("(" + node_or_text + ")", mode="eval").body
    return ast.dump(node_or_text)


COMPS = (ast.ListComp, ast.SetComp, ast.DictComp, ast.GeneratorExp)


class _InsideComps(ast.NodeTransformer):
    """Wrap the occurrences of one sub-expression (given by its dump) that lie lexically inside comprehensions into
    __rin(dependent, node); ``dependent`` = the occurrence uses a name bound by a `for` clause in scope at that place."""

    def __init__(self, kd):
        self.kd = kd
        self.bound = frozenset()
        self.inside = False
        self.occurrences = []  # dependent flags
        self.shadowing = set()  # loop variables in scope that the occurrences use

    def _comp(self, node):
        saved = (self.bound, self.inside)
        outer_inside = self.inside
        first = True
        self.inside = True
        for gen in node.generators:
            if first:
                # the first iterable is evaluated in the enclosing scope
                self.inside, b = outer_inside, self.bound
                gen.iter = self.visit(gen.iter)
                self.inside = True
                first = False
            else:
                gen.iter = self.visit(gen.iter)
            self.bound = self.bound | {n.id for n in ast.walk(gen.target) if isinstance(n, ast.Name)}
            gen.ifs = [self.visit(c) for c in gen.ifs]
        if isinstance(node, ast.DictComp):
            node.key = self.visit(node.key)
            node.value = self.visit(node.value)
        else:
            node.elt = self.visit(node.elt)
        self.bound, self.inside = saved
        return node

    def visit(self, node):
        if isinstance(node, ast.Lambda):
            return node
        if isinstance(node, COMPS):
            # an occurrence in the FIRST iterable of a comprehension belongs to the enclosing scope: it counts as an
            # occurrence that does not depend on the loop variables of that comprehension
            hit = ast.dump(node) == self.kd
            names = {n.id for n in ast.walk(node) if isinstance(n, ast.Name)}
            dep = self.inside and bool(names & self.bound)
            new = self._comp(node)
        elif isinstance(node, ast.expr) and not isinstance(getattr(node, "ctx", None), (ast.Store, ast.Del)):
            hit = not isinstance(node, (ast.Starred, ast.Slice)) and ast.dump(node) == self.kd
            names = {n.id for n in ast.walk(node) if isinstance(n, ast.Name)}
            dep = self.inside and bool(names & self.bound)
            new = self.generic_visit(node)
        else:
            return self.generic_visit(node)
        if hit:
            self.occurrences.append(dep)
            if dep:
                self.shadowing |= names & self.bound
            return ast.copy_location(ast.Call(func=ast.Name(id="__rin", ctx=ast.Load()),
                                              args=[ast.Constant(value=dep), new], keywords=[]), node)
        return new


def inside_values(text, kd, inputs, params):
    """For the sub-expression with dump ``kd``: (flags of its occurrences inside comprehensions - True = uses a loop
    variable in scope there, the objects those occurrences evaluated to while Python evaluated the condition, the loop
    variables in scope that the occurrences use)."""
    tree = ast.parse(text, mode="eval")
    tr = _InsideComps(kd)
    new = tr.visit(tree)
    ast.fix_missing_locations(new)
    seen = []

    def rin(dep, v):
        seen.append(v)
        return v

    g = {"__builtins__": builtins}
    g.update(namespace(inputs, params))
    g["__rin"] = rin
    try:
        eval(compile(new, "<cond-inside>", "eval"), g)
    except Exception:  # noqa
        pass
    return tr.occurrences, seen, tr.shadowing
