"""Typed expression grammar (DESIGN 3.3). Produces condition SOURCE TEXT; most expressions evaluate without raising."""
import ast

from hypothesis import strategies as st

# name -> type; the decorated function takes all ARGS; the condition lambda takes the ones it uses
ARGS = {"x": "int", "n": "int", "s": "str", "xs": "ilist", "ys": "ilist", "ss": "iset", "d": "sdict", "t": "itup",
        "o": "obj", "m": "mat", "id": "int", "G": "int", "zs": "sset", "q": "qobj"}
CLOSURE = {"C": "int", "CS": "str", "CL": "ilist", "H": "int"}  # H exists as a module global too (closure wins)
# parameters of the CONDITION itself that carry a default (the `k=k` idiom); a module global of the same name exists
DEFAULTED = {"L": "int"}
DEFAULT_VALUES = {"L": 41}
GLOBALS = {"G": "int", "GS": "str", "GL": "ilist", "Y": "int"}  # plus d0 = {"a": 2} (only used by name in templates)
EXTRA_ARGS = {"Y": "int"}  # a parameter of the function that the condition never takes; collides with the global Y
CMP_OPS = ["<", "<=", ">", ">=", "==", "!="]
ALPHABET = "abcxyz\u00e9\u03bb"  # two non-ASCII letters: ascii() and repr() differ on them
# string LITERALS in the condition may hold what looks like syntax: lone parentheses, a comment sign, an `@`
LITERAL_ALPHABET = ALPHABET + "()#@["


class Gen:
    def __init__(self, draw, probes=False, use_none_id=False, targets=None, allow=None):
        self.draw = draw
        self.probes = probes
        self.nprobe = 0
        self.named = 0
        self.targets = dict(targets or {})  # comprehension targets in scope: name -> type
        self.structured = True  # tuple/nested/starred comprehension targets over zip()/enumerate() (address-bearing reprs)
        self.used = set()
        self.allow = allow  # optional set of construct names to allow
        self.features = set()

    # ---- helpers ---------------------------------------------------------------
    def pick(self, xs):
        return self.draw(st.sampled_from(list(xs)))

    def coin(self, n=2):
        return self.draw(st.integers(0, n - 1)) == 0

    def names_of(self, typ):
        out = []
        for table, src in ((self.targets, "target"), (ARGS, "arg"), (CLOSURE, "closure"), (GLOBALS, "global"),
                           (DEFAULTED, "condition-default")):
            for k, v in table.items():
                if v == typ and not (src != "target" and k in self.targets):
                    out.append((k, src))
        return out

    def name(self, typ):
        cands = self.names_of(typ)
        k, src = self.pick(cands)
        self.used.add((k, src))
        if src in ("closure", "global", "condition-default"):
            self.features.add(src)
        return k

    def maybe_probe(self, text):
        # probes only outside comprehension scopes: C07(d) is about short-circuit evaluation of the condition,
        # not about comprehension bodies over empty iterables
        if self.probes and not self.targets and self.coin(4):
            self.nprobe += 1
            return "p(%d, %s)" % (self.nprobe, text)
        return text

    # ---- types -----------------------------------------------------------------
    def expr(self, typ, depth):
        return self.maybe_probe(getattr(self, "t_" + typ)(depth))

    def t_int(self, depth):
        if depth <= 0:
            return self.pick([str(self.draw(st.integers(-2, 9))), self.name("int")])
        k = self.draw(st.integers(0, 18))
        if k == 16:
            # the remaining unary and binary operators (small operands: no huge powers or shifts)
            self.features.add("rare-operator")
            e = self.expr("int", depth - 1)
            return self.pick(["(+%s)", "(~%s)", "(%s ** 2)", "(%s << 1)", "(%s >> 1)", "int(%s / 2)", "((m @ m)[0, 1] + %s)",
                              # operands on which the unary operators are not the identity (bool -> int)
                              "ident(+(%s > 0))", "ident(-(%s > 1))", "ident(~(%s == 0))"]) % e
        if k == 17:
            # dict displays and ** in calls
            self.features.add("dict-display")
            a, b = self.expr("int", depth - 1), self.expr("int", depth - 1)
            return self.pick(["kw(**{'a': %s, 'b': %s})", "len({'a': %s, 'k': %s})", "{'a': %s}['a'] + %s",
                              "kw(**d0, b=%s) + %s", "len({str(t9): t9 + %s for t9 in [1, %s]})"]) % (a, b)
        if k == 18:
            # starred items in list/tuple/set displays, ** in dict displays
            self.features.add("starred-display")
            xs, e = self.expr("ilist", depth - 1), self.expr("int", depth - 1)
            return self.pick(["len([*%s, %s])", "sum((*%s, %s))", "len({*%s, %s})", "len({**{'k': len(%s)}, 'j': %s})",
                              # colliding keys: the later item wins, whether it is unpacked or spelled out
                              "{'a': len(%s), **d0}['a'] + %s", "{**d0, **{'a': len(%s)}}['a'] + %s",
                              "{**{'a': len(%s)}, 'a': %s}['a']"]) % (xs, e)
        if k == 0:
            return str(self.draw(st.integers(-2, 9)))
        if k == 1:
            return self.name("int")
        if k == 2:
            return "%s.n" % self.expr_obj_safe(depth - 1)
        if k == 3:
            return "len(%s)" % self.expr(self.pick(["ilist", "str", "sdict", "iset", "itup"]), depth - 1)
        if k == 4:
            return "ident(%s)" % self.expr("int", depth - 1)
        if k == 5:
            self.features.add("star-arg")
            return "add(*%s)" % self.expr("ilist", depth - 1)
        if k == 6:
            self.features.add("kwarg")
            if self.draw(st.integers(0, 2)) == 0:
                # a callee that tolerates any object, given a possibly unknown value (None-bound name, loop variable) by keyword
                return "tag(v=%s, w=%s)" % (self.name("int"), self.expr("int", depth - 1))
            return "kw(a=%s, b=%s)" % (self.expr("int", depth - 1), self.expr("int", depth - 1))
        if k == 7:
            return "(-%s)" % self.expr("int", depth - 1)
        if k == 8:
            return "(%s %s %s)" % (self.expr("int", depth - 1), self.pick(["+", "-", "*", "%", "//", "&", "|", "^"]),
                                   self.expr("int", depth - 1))
        if k == 9:
            self.features.add("ifexp")
            return "(%s if %s else %s)" % (self.expr("int", depth - 1), self.expr("bool", depth - 1), self.expr("int", depth - 1))
        if k == 10:
            self.features.add("comprehension")
            tgt, it, cond = self.comp_clause(depth - 1)
            return "sum(%s for %s in %s%s)" % (self.in_target(tgt, "int", lambda: self.expr("int", depth - 1)), tgt, it, cond)
        if k == 11:
            self.features.add("subscript")
            return "first(%s)" % self.expr("ilist", depth - 1)
        if k == 12:
            self.features.add("subscript")
            return "m[%s, %s]" % (self.pick(["0", "1"]), self.pick(["0", "1"]))
        if k == 13 and self.named < 3 and not self.targets:
            self.named += 1
            self.features.add("named-expr")
            # the first assignment expression binds a fresh name; later ones may RE-BIND it, or a parameter
            target = "w1" if self.named == 1 else self.pick(["w1", "w%d" % self.named, "x", "n"])
            if target in ("w1", "x", "n") and self.named > 1:
                self.features.add("named-expr-rebinds")
            return "(%s := %s)" % (target, self.expr("int", depth - 1))
        if k == 14:
            return "%s.get(%s)" % (self.expr_obj_safe(depth - 1), self.expr("int", depth - 1))
        return "kw(b=%s)" % self.expr("int", depth - 1)

    def t_bool(self, depth):
        if depth <= 0:
            return "%s %s %s" % (self.t_int(0), self.pick(CMP_OPS), self.t_int(0))
        k = self.draw(st.integers(0, 17 if self.structured else 16))
        if k == 17:
            self.features.add("all-any")
            head, types = self.structured_clause(depth - 1)
            saved = dict(self.targets)
            self.targets.update(types)
            try:
                elt = self.expr("bool", max(depth - 1, 0))
            finally:
                self.targets = saved
            return "all(%s %s)" % (elt, head)
        if k == 12:
            nm = self.name("int")
            return self.pick(["(%s is None)", "(ident(%s) is None)", "(%s is not None)"]) % nm
        if k == 16:
            # all() over a generator with two or three filters on one `for`: the reported example must be the first
            # item that passes ALL the filters and falsifies the element
            self.features.add("all-any")
            self.features.add("all-multi-if")
            tgt = self.pick(self.free_names(["y", "z", "v"]))
            it = self.expr("ilist", depth - 1)
            saved = dict(self.targets)
            self.targets[tgt] = "int"
            try:
                conds = "".join(" if %s %s %s" % (tgt, self.pick(["!=", ">", "<", ">=", "%"]), self.t_int(0))
                                for _ in range(self.draw(st.integers(2, 3))))
                conds = conds.replace("% ", "% 2 == ")
                elt = "%s %s %s" % (tgt, self.pick(CMP_OPS), self.t_int(0))
                if self.draw(st.integers(0, 3)) == 0:
                    self.features.add("all-nonbool-element")
                    elt = self.pick(["%s", "(%s - 1)", "(%s %% 3)"]) % tgt
            finally:
                self.targets = saved
            return "all(%s for %s in %s%s)" % (elt, tgt, it, conds)
        if k == 15:
            # reflexive comparison: both sides equal, so <=, >=, == hold and <, >, != do not
            e = self.expr("int", depth - 1) if not self.probes else self.name("int")
            return "ident(%s %s %s)" % (e, self.pick(CMP_OPS), e)
        if k == 13:
            self.features.add("all-any")
            tgt = self.pick(self.free_names(["v", "u", "q"]))
            its = "[%s]" % ", ".join(self.expr("ilist", depth - 1) for _ in range(self.draw(st.integers(1, 3))))
            if self.draw(st.integers(0, 2)) == 0:
                # the element is judged by its truth value, it is not a bool itself
                self.features.add("all-nonbool-element")
                return "all(len(%s) for %s in %s)" % (tgt, tgt, its)
            return "all(len(%s) %s %s for %s in %s)" % (tgt, self.pick(["<", ">", "!="]), self.expr("int", 0), tgt, its)
        if k == 14:
            self.features.add("all-any")
            tgt = self.pick(self.free_names(["v", "u", "q"]))
            its = "[%s]" % ", ".join(self.expr("str", depth - 1) for _ in range(self.draw(st.integers(1, 3))))
            if self.draw(st.integers(0, 2)) == 0:
                self.features.add("all-nonbool-element")
                return "all(%s for %s in %s)" % (self.pick(["%s", "%s.strip()", "(%s or None)"]) % tgt, tgt, its)
            return "all(%s %s %s for %s in %s)" % (tgt, self.pick(["!=", "<", "=="]), self.expr("str", 0), tgt, its)
        if k <= 1:
            n = self.draw(st.integers(1, 3))
            parts = [self.expr("int", depth - 1)]
            for _ in range(n):
                parts += [self.pick(CMP_OPS), self.expr("int", depth - 1)]
            if n >= 2:
                self.features.add("cmp-chain")
            return "(%s)" % " ".join(parts)
        if k == 2:
            self.features.add("boolop")
            return "(%s)" % (" %s " % self.pick(["and", "or"])).join(self.expr("bool", depth - 1) for _ in range(self.draw(st.integers(2, 3))))
        if k == 3:
            return "(not %s)" % self.expr("bool", depth - 1)
        if k == 4:
            return "(%s %s %s)" % (self.expr("int", depth - 1), self.pick(["in", "not in"]),
                                   self.expr(self.pick(["ilist", "iset", "itup"]), depth - 1))
        if k == 5:
            self.features.add("all-any")
            tgt, it, cond = self.comp_clause(depth - 1)
            return "%s(%s for %s in %s%s)" % (self.pick(["all", "any"]),
                                               self.in_target(tgt, "int", lambda: self.expr("bool", depth - 1)), tgt, it, cond)
        if k == 6:
            return "(%s.child %s None)" % (self.name("obj"), self.pick(["is", "is not"]))
        if k == 7:
            return "%s.startswith(%s)" % (self.expr("str", depth - 1), self.expr("str", depth - 1))
        if k == 8:
            return "(%s %s %s)" % (self.expr("str", depth - 1), self.pick(["==", "!=", "<"]), self.expr("str", depth - 1))
        if k == 9:
            return "%s.has(%s)" % (self.expr_obj_safe(depth - 1), self.expr("int", depth - 1))
        if k == 10:
            self.features.add("boolop-in-call")
            return "ident(%s)" % self.expr("bool", depth - 1)
        return "(%s == %s)" % (self.expr("ilist", depth - 1), self.expr("ilist", depth - 1))

    def t_str(self, depth):
        if depth <= 0:
            return self.pick([repr(self.draw(st.text(LITERAL_ALPHABET, max_size=4))), self.name("str")])
        k = self.draw(st.integers(0, 6))
        if k == 0:
            return repr(self.draw(st.text(LITERAL_ALPHABET, max_size=4)))
        if k == 1:
            return self.name("str")
        if k == 2:
            self.features.add("f-string")
            a = self.pick([n for n, t in ARGS.items() if t in ("int", "str") and n != "id"])
            self.used.add((a, "arg"))
            conv = self.pick(["", "!r", "!s", "!a"])
            spec = self.pick(["", ":>4", ":<3"]) if (conv == "" or ARGS[a] == "str") else ""
            return "f'%s{%s%s%s}'" % (self.draw(st.text("ab", max_size=2)), a, conv, spec)
        if k == 3:
            return "(%s + %s)" % (self.expr("str", depth - 1), self.expr("str", depth - 1))
        if k == 4:
            self.features.add("slice")
            return "%s[%s]" % (self.expr("str", depth - 1), self.slice_text(depth - 1))
        if k == 5:
            return "%s.upper()" % self.expr("str", depth - 1)
        return "str(%s)" % self.expr("int", depth - 1)

    def t_ilist(self, depth):
        if depth <= 0:
            return self.name("ilist")
        k = self.draw(st.integers(0, 8 if self.structured else 7))
        if k == 8:
            head, types = self.structured_clause(depth - 1)
            saved = dict(self.targets)
            self.targets.update(types)
            try:
                elt = self.expr("int", depth - 1)
            finally:
                self.targets = saved
            return "[%s %s]" % (elt, head)
        if k == 0:
            return self.name("ilist")
        if k == 1:
            return "[%s]" % ", ".join(self.expr("int", depth - 1) for _ in range(self.draw(st.integers(0, 3))))
        if k == 2:
            self.features.add("comprehension")
            tgt, it, cond = self.comp_clause(depth - 1)
            return "[%s for %s in %s%s]" % (self.in_target(tgt, "int", lambda: self.expr("int", depth - 1)), tgt, it, cond)
        if k == 3:
            self.features.add("slice")
            return "%s[%s]" % (self.expr("ilist", depth - 1), self.slice_text(depth - 1))
        if k == 4:
            return "sorted(%s)" % self.expr(self.pick(["ilist", "iset", "itup"]), depth - 1)
        if k == 5:
            return "(%s + %s)" % (self.expr("ilist", depth - 1), self.expr("ilist", depth - 1))
        if k == 6:
            return "%s.items" % self.expr_obj_safe(depth - 1)
        self.features.add("comprehension")
        if self.coin(3):
            # the iterable of the later clause depends on the loop variable of the earlier one, and that variable hides
            # an input of the same name and type: only the first iterable is evaluated in the enclosing scope
            outs = [t for t in ("xs", "ys") if t not in self.targets]
            if outs:
                self.features.add("dependent-iterable")
                self.features.add("target-shadows-arg")
                t1 = self.pick(outs)
                it1 = "[%s]" % ", ".join(self.expr("ilist", depth - 1) for _ in range(self.draw(st.integers(1, 3))))
                saved = dict(self.targets)
                self.targets[t1] = "ilist"
                try:
                    t2 = self.pick(self.free_names(["y", "z", "v", "u"]))
                    it2 = self.pick(["%s", "%s[1:]", "%s[:2]", "sorted(%s)", "(%s + [1])"]) % t1
                    self.targets[t2] = "int"
                    elt = self.expr("int", depth - 1)
                finally:
                    self.targets = saved
                return "[%s for %s in %s for %s in %s]" % (elt, t1, it1, t2, it2)
        t1, it1, c1 = self.comp_clause(depth - 1)
        saved = dict(self.targets)
        self.targets[t1] = "int"
        try:
            t2, it2, c2 = self.comp_clause(depth - 1, avoid=t1)
            self.targets[t2] = "int"
            elt = self.expr("int", depth - 1)
        finally:
            self.targets = saved
        return "[%s for %s in %s%s for %s in %s%s]" % (elt, t1, it1, c1, t2, it2, c2)

    def t_iset(self, depth):
        if depth <= 0 or self.coin(3):
            return self.name("iset")
        if self.coin():
            return "{%s}" % ", ".join(self.expr("int", depth - 1) for _ in range(self.draw(st.integers(1, 3))))
        self.features.add("comprehension")
        tgt, it, cond = self.comp_clause(depth - 1)
        return "{%s for %s in %s%s}" % (self.in_target(tgt, "int", lambda: self.expr("int", depth - 1)), tgt, it, cond)

    def t_sdict(self, depth):
        if depth <= 0 or self.coin(3):
            return self.name("sdict")
        if self.coin():
            return "{%s}" % ", ".join("%s: %s" % (self.expr("str", depth - 1), self.expr("int", depth - 1))
                                      for _ in range(self.draw(st.integers(0, 2))))
        self.features.add("comprehension")
        tgt, it, cond = self.comp_clause(depth - 1)
        return "{str(%s): %s for %s in %s%s}" % (tgt, self.in_target(tgt, "int", lambda: self.expr("int", depth - 1)), tgt, it, cond)

    def t_itup(self, depth):
        if depth <= 0 or self.coin(3):
            return self.name("itup")
        return "(%s,)" % ", ".join(self.expr("int", depth - 1) for _ in range(self.draw(st.integers(1, 3))))

    def t_obj(self, depth):
        return self.name("obj")

    def t_mat(self, depth):
        return self.name("mat")

    def expr_obj_safe(self, depth):
        # mostly the object itself; sometimes its child (which may be None -> the case is skipped when it raises)
        o = self.name("obj")
        if self.coin(4):
            return "%s.child" % o
        return o

    def slice_text(self, depth):
        parts = [self.expr("int", depth) if self.coin() else "" for _ in range(2)]
        text = ":".join(parts)
        if self.coin(3):
            text += ":" + self.pick(["1", "2", "-1"])
        return text

    def comp_clause(self, depth, avoid=None):
        tgt = self.pick(self.free_names(["y", "z", "x", "v", "u", "q"], avoid))
        if tgt == "x":
            self.features.add("target-shadows-arg")
        it = self.expr(self.pick(["ilist", "ilist", "iset", "itup"]), depth)
        cond = ""
        if self.coin(3):
            saved = dict(self.targets)
            self.targets[tgt] = "int"
            try:
                for _ in range(self.draw(st.integers(1, 2))):
                    cond += " if %s" % self.expr("bool", max(depth - 1, 0))
            finally:
                self.targets = saved
        return tgt, it, cond

    def structured_clause(self, depth):
        """A `for` clause whose target is not a single name: flat tuple, nested tuple or starred. Returns (text, {name: type}).

        The names are drawn from a pool that includes parameter names (x, n): a target hides the parameter."""
        self.features.add("comprehension")
        self.features.add("structured-target")
        pool = self.free_names(["y", "z", "v", "x", "n", "u"], need=3)
        a = self.pick(pool)
        b = self.pick([t for t in pool if t != a])
        c = self.pick([t for t in pool if t not in (a, b)])
        if {a, b, c} & {"x", "n"}:
            self.features.add("target-shadows-arg")
        l1, l2 = self.expr("ilist", depth), self.expr("ilist", depth)
        k = self.draw(st.integers(0, 3))
        if k == 0:
            return "for %s, %s in enumerate(%s)" % (a, b, l1), {a: "int", b: "int"}
        if k == 1:
            return "for %s, (%s, %s) in enumerate(zip(%s, %s))" % (a, b, c, l1, l2), {a: "int", b: "int", c: "int"}
        if k == 2:
            return "for (%s, %s), %s in zip(zip(%s, %s), %s)" % (a, b, c, l1, l2, l1), {a: "int", b: "int", c: "int"}
        return "for %s, *%s in [%s + [%s], %s + [%s, %s]]" % (a, b, l1, self.t_int(0), l2, self.t_int(0), self.t_int(0)), {
            a: "int", b: "ilist"}

    def free_names(self, cands, avoid=None, need=1):
        """Target names not bound by an enclosing comprehension; deep nestings fall back to t1, t2, ..."""
        out = [t for t in cands if t != avoid and t not in self.targets]
        i = 0
        while len(out) < need:
            i += 1
            if "t%d" % i not in self.targets and "t%d" % i != avoid:
                out.append("t%d" % i)
        return out

    def in_target(self, tgt, typ, fn):
        saved = dict(self.targets)
        self.targets[tgt] = typ
        try:
            return fn()
        finally:
            self.targets = saved


def canon(text):
    return ast.unparse(ast.parse(text, mode="eval"))


GUARDED = [
    # (template, lambda parameters)  - later operands are only defined when earlier ones hold
    ("xs and xs[0] > {k}", ["xs"]),
    ("o.child is None or o.child.n > {k}", ["o"]),
    ("n != 0 and 10 // n > {k}", ["n"]),
    ("0 < n < 10 // n", ["n"]),
    ("s in d and d[s] > {k}", ["s", "d"]),
    ("len(t) > 0 and t[0] > {k}", ["t"]),
    ("not xs or xs[-1] < {k}", ["xs"]),
    ("o.child is not None and o.child.items and o.child.items[0] == {k}", ["o"]),
    ("x > 0 and xs[x] == {k}", ["x", "xs"]),
    ("1 < n <= len(xs) and xs[n - 1] > {k}", ["n", "xs"]),
    ("all(y > {k} for y in xs) and xs and xs[0] > 100", ["xs"]),
    ("all(y for y in xs) and len(xs) > {k} + 100", ["xs"]),
    ("all(c.strip() for c in zs) and len(zs) > {k} + 100", ["zs"]),
    ("(n and 12 // n) or xs[n] > {k}", ["n", "xs"]),
    ("ident(n != 0 and 10 // n > {k})", ["n"]),
    ("ident(xs and xs[0]) is None", ["xs"]),
    # comparisons whose results are falsy objects other than the singleton False (numpy-like)
    ("mkq(0) < q < mkq(10 // q.v)", ["q"]),
    ("mkq({k}) <= q <= mkq(10 // q.v) < mkq(100)", ["q"]),
    ("ident(mkq(1) > q > mkq(10 % q.v))", ["q"]),
    # parts of a comprehension that Python never reaches (empty iterable) and that would raise something else than a
    # look-up error
    ("all(y < 100 // n for y in xs) and len(xs) > {k} + 100", ["n", "xs"]),
    ("[y for y in xs if 10 // n > y] == [] and len(xs) > {k} + 100", ["n", "xs"]),
    ("sum(10 % n for y in xs) == 0 and len(xs) > {k} + 100", ["n", "xs"]),
    # displays holding an array-like whose == against foreign objects has no truth value (never compared by Python here)
    ("len([q, x]) > {k} + 100", ["q", "x"]),
    ("len((q, mkq(2))) > 100 or first([q]) < mkq(-1000)", ["q"]),
    ("n != 0 and len([q, 10 // n]) > {k} + 100", ["n", "q"]),
]


@st.composite
def st_inputs(draw, long_values=None):
    """Concrete argument values (JSON-able description, see build_inputs)."""
    if long_values is None:
        long_values = draw(st.integers(0, 4)) == 0
    ints = st.integers(-3, 12)
    lst = st.lists(ints, max_size=5 if not long_values else 60)
    text = st.text(ALPHABET, max_size=6 if not long_values else 300)

    def node(depth):
        child = None
        if depth > 0 and draw(st.booleans()):
            child = node(depth - 1)
        return {"n": draw(ints), "items": draw(st.lists(ints, max_size=3)), "child": child}

    d_keys = draw(st.lists(st.text(ALPHABET, min_size=1, max_size=3), max_size=3, unique=True))
    return {
        "x": draw(ints), "n": draw(st.sampled_from([0, 0, 1, 2, 3, 5, -1, 10])), "s": draw(text), "xs": draw(lst),
        "ys": draw(lst), "ss": sorted(draw(st.sets(ints, max_size=4))), "d": {k: draw(ints) for k in d_keys},
        "t": draw(st.lists(ints, max_size=3)), "o": node(2), "m": [[draw(ints), draw(ints)], [draw(ints), draw(ints)]],
        "id": draw(st.sampled_from([None, 0, 3, 4])), "Y": draw(st.sampled_from([-1000, 7, 10])),
        "G": draw(st.sampled_from([None, 5, 6, -2])),
        "zs": sorted(draw(st.sets(st.text(ALPHABET, min_size=1, max_size=3), max_size=5))),
        "q": draw(st.sampled_from([0, 0, 1, 3, -2, 20])),
    }


def build_inputs(desc):
    from vf.exprlib import Node, Mat

    def node(n):
        if n is None:
            return None
        return Node(n["n"], n["items"], node(n["child"]))

    out = dict(desc)
    out.setdefault("G", 5)  # cases recorded before the parameter G existed
    out["zs"] = set(desc.get("zs", []))
    from vf.exprlib import Q

    out["q"] = Q(desc.get("q", 0))
    out["ss"] = set(desc["ss"])
    out["t"] = tuple(desc["t"])
    out["o"] = node(desc["o"])
    out["m"] = Mat(desc["m"])
    return out


CLOSURE_VALUES = {"C": 3, "CS": "cz", "CL": [1, 2, 3], "H": 200}
GLOBAL_VALUES = {"G": 5, "GS": "gab", "GL": [4, 0, -1], "Y": 10, "H": 100, "d0": {"a": 2}, "L": 97}


@st.composite
def st_condition(draw, depth=3, probes=False, typ=None, structured=True):
    """Returns {'text': canonical expression text, 'params': lambda parameters, 'features': [...]}."""
    g = Gen(draw, probes=probes)
    g.structured = structured
    typ = typ or draw(st.sampled_from(["bool", "bool", "bool", "bool", "int", "ilist", "str"]))
    text = g.expr(typ, draw(st.integers(1, depth)))
    text = canon(text)
    params = free_params(text)
    return {"text": text, "params": params, "features": sorted(g.features), "type": typ}


def free_params(text):
    """Names of ARGS that the expression loads outside of a comprehension binding them."""
    tree = ast.parse(text, mode="eval")
    names = {n.id for n in ast.walk(tree) if isinstance(n, ast.Name) and n.id in ARGS}
    return sorted(n for n in names if not shadowed_everywhere(tree, n))


def shadowed_everywhere(tree, name):
    """True if every load of ``name`` is inside a comprehension that binds it (then it is not a parameter)."""

    class V(ast.NodeVisitor):
        def __init__(self):
            self.free = False
            self.bound = []

        def visit_comp(self, node):
            names = set()
            for gen in node.generators:
                for n in ast.walk(gen.target):
                    if isinstance(n, ast.Name):
                        names.add(n.id)
            # first iterable is evaluated outside
            self.visit(node.generators[0].iter)
            self.bound.append(names)
            for i, gen in enumerate(node.generators):
                if i > 0:
                    self.visit(gen.iter)
                for c in gen.ifs:
                    self.visit(c)
            if isinstance(node, ast.DictComp):
                self.visit(node.key)
                self.visit(node.value)
            else:
                self.visit(node.elt)
            self.bound.pop()

        visit_ListComp = visit_SetComp = visit_DictComp = visit_GeneratorExp = visit_comp

        def visit_Name(self, node):
            if node.id == name and isinstance(node.ctx, ast.Load) and not any(name in b for b in self.bound):
                self.free = True

    v = V()
    v.visit(tree)
    return not v.free
