"""Parse a generated violation message: header (location, description, condition text) and value entries."""
import re

LOC_RE = re.compile(r"^File (.+), line (\d+) in (.+):$")


class ParseError(Exception):
    pass


def parse(msg, description, cond_text):
    """-> dict(location=(file, line, scope), entries=[(key, value_text | ('all', [(name, text)]))])"""
    # continuation lines of an attribute chain (`a\n    .b`): the library reports the decorator's source dedented, so the
    # amount of indentation in front of the dot is not compared
    msg = re.sub(r"\n[ \t]+\.", "\n.", msg)
    cond_text = re.sub(r"\n[ \t]+\.", "\n.", cond_text)
    lines = msg.split("\n")
    m = LOC_RE.match(lines[0]) if lines else None
    if not m:
        raise ParseError("no location line: %r" % (lines[:1],))
    rest = "\n".join(lines[1:])
    prefix = "%s: " % description
    if not rest.startswith(prefix):
        raise ParseError("description missing: %r" % rest[:80])
    rest = rest[len(prefix):]
    cands = [cond_text]
    if cond_text.startswith("(") and cond_text.endswith(")"):
        cands.append(cond_text[1:-1])  # the reported text of a parenthesised body comes without the parentheses
    for c in cands:
        if rest.startswith(c) and (len(rest) == len(c) or rest[len(c)] == ":"):
            cond_text = c
            break
    else:
        raise ParseError("condition text differs: %r vs %r" % (rest[:len(cond_text) + 10], cond_text))
    tail = rest[len(cond_text):]
    out = {"location": (m.group(1), int(m.group(2)), m.group(3)), "entries": [], "text": cond_text}
    if tail == "":
        return out
    if tail.startswith(":\n"):
        body = tail[2:]
    elif tail.startswith(": "):
        body = tail[2:]
    else:
        raise ParseError("unexpected separator after the condition text: %r" % tail[:20])
    out["entries"] = parse_entries(body)
    return out


def parse_entries(body):
    entries = []
    blines = body.split("\n")
    i = 0
    while i < len(blines):
        line = blines[i]
        # the text of a sub-expression may span several source lines: the key runs up to the line holding ' was '
        j = i
        while " was " not in blines[j]:
            j += 1
            if j >= len(blines):
                raise ParseError("value line without ' was ': %r" % line)
        if j > i:
            line = "\n".join(blines[i:j + 1])
            i = j
        key, val = line.split(" was ", 1)
        if val == "False, e.g., with":
            inputs = []
            i += 1
            while i < len(blines) and blines[i].startswith("  "):
                nm, _, tx = blines[i][2:].partition(" = ")
                inputs.append((nm, tx))
                i += 1
            entries.append((key, ("all", inputs)))
            continue
        entries.append((key, val))
        i += 1
    return entries
