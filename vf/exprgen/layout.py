"""Source layouts of a contract decorator (DESIGN 3.3 'Layouts')."""
from hypothesis import strategies as st


def split_top(text):
    """Split an expression text at top-level ' and ' / ' or ' / ', ' boundaries (outside brackets and strings)."""
    parts, depth, cur, i = [], 0, "", 0
    quote = None
    while i < len(text):
        ch = text[i]
        if quote:
            cur += ch
            if ch == quote:
                quote = None
            i += 1
            continue
        if ch in "'\"":
            quote = ch
            cur += ch
            i += 1
            continue
        if ch in "([{":
            depth += 1
        elif ch in ")]}":
            depth -= 1
        if depth == 0:
            for sep in (" and ", " or "):
                if text.startswith(sep, i):
                    parts.append(cur)
                    parts.append(sep.strip())
                    cur = ""
                    i += len(sep)
                    break
            else:
                cur += ch
                i += 1
            continue
        cur += ch
        i += 1
    parts.append(cur)
    return parts


def multiline_condition(text):
    """(A\\n    and B\\n    or C) - parenthesised, operators at line starts. None if nothing to split."""
    parts = split_top(text)
    if len(parts) < 3:
        return None
    lines = ["(" + parts[0]]
    for j in range(1, len(parts), 2):
        lines.append("        %s %s" % (parts[j], parts[j + 1]))
    lines[-1] += ")"
    return lines


import re

_DOT_RE = re.compile(r"(?<=[\w\)\]])\.(?=[A-Za-z_])")


def dot_break(text):
    """`a.b.c(x).d` -> parenthesised, with a line break before every attribute dot. None if there is nothing to break
    (or the text holds string literals, whose dots must stay)."""
    if "'" in text or '"' in text or not _DOT_RE.search(text):
        return None
    return "(" + _DOT_RE.sub("\n            .", text) + ")"


LAYOUTS = ["one-line", "args-on-lines", "keyword-form", "keyword-form-lines", "condition-multiline", "comments", "odd-comments", "trailing-comma-desc-kw",
           "no-description", "no-description-kw", "break-before-matmul", "break-before-matmul-tight", "break-before-dot",
           "space-after-at", "parenthesised-decorator", "continuation-at-column-0", "at-line-above-condition"]
NO_DESCRIPTION = ("no-description", "no-description-kw")


def make_layout(kind):
    def layout(deco, params, text, desc, extra):
        lam = "lambda %s: %s" % (", ".join(params), text)
        if kind == "one-line":
            return ["@icontract.%s(%s, %r%s)" % (deco, lam, desc, extra)]
        if kind == "args-on-lines":
            return ["@icontract.%s(" % deco, "    %s," % lam, "    %r%s," % (desc, extra), ")"]
        if kind == "keyword-form":
            return ["@icontract.%s(description=%r, condition=%s, enabled=True%s)" % (deco, desc, lam, extra)]
        if kind == "keyword-form-lines":
            return ["@icontract.%s(" % deco, "    enabled=True,", "    condition=%s," % lam, "    description=%r%s" % (desc, extra), ")"]
        if kind == "condition-multiline":
            ml = multiline_condition(text)
            if ml is None:
                return ["@icontract.%s(" % deco, "    lambda %s:" % ", ".join(params), "        %s," % text, "    %r%s)" % (desc, extra)]
            out = ["@icontract.%s(" % deco, "    lambda %s: %s" % (", ".join(params), ml[0])]
            out += ml[1:-1] if len(ml) > 2 else []
            out.append(ml[-1] + ",") if len(ml) > 1 else None
            out.append("    %r%s)" % (desc, extra))
            return out
        if kind == "comments":
            return ["@icontract.%s(  # a comment after the opening parenthesis" % deco,
                    "    # a comment line inside the decorator",
                    "    %s,  # trailing comment" % lam,
                    "",
                    "    %r%s" % (desc, extra),
                    "    # last comment",
                    ")"]
        if kind == "odd-comments":
            # comments are free text: lone parentheses, brackets, quotes and an `@` in them mean nothing
            return ["@icontract.%s(  # a) the half-open interval [0, 1)" % deco,
                    "    # :-) and an opening one ( as well, a quote ' and \" too",
                    "    %s,  # b) @second {" % lam,
                    "    %r%s" % (desc, extra),
                    "    # def not_a_def(): ]",
                    ")"]
        if kind in ("break-before-matmul", "break-before-matmul-tight"):
            # a break before a binary operator; with `@` the continuation line looks like a decorator (with no blank
            # after the operator it looks exactly like one: finding D28)
            if " @ " not in text:
                return ["@icontract.%s(%s, %r%s)" % (deco, lam, desc, extra)]
            i = text.index(" @ ")
            op = "@ " if kind == "break-before-matmul" else "@"
            return ["@icontract.%s(" % deco, "    lambda %s: %s" % (", ".join(params), text[:i]),
                    "        %s%s," % (op, text[i + 3:]), "    %r%s)" % (desc, extra)]
        if kind == "break-before-dot":
            # an attribute / method chain continued on the next lines (the sub-expressions a, a.b, a.b.c then differ only by
            # what follows a line break)
            t = dot_break(text)
            if t is None:
                return ["@icontract.%s(%s, %r%s)" % (deco, lam, desc, extra)]
            tl = t.split("\n")
            return ["@icontract.%s(" % deco, "    lambda %s: %s" % (", ".join(params), tl[0])] + tl[1:-1] + [
                tl[-1] + ",", "    %r%s)" % (desc, extra)]
        if kind == "continuation-at-column-0":
            # inside the parentheses a continuation line may start anywhere - also left of the decorator's own indentation
            return ["@icontract.%s(lambda %s:" % (deco, ", ".join(params)), "<<%s," % text, "<<  %r%s)" % (desc, extra)]
        if kind == "at-line-above-condition":
            # keyword form with the description first: one of ITS continuation lines starts with the operator `@` (it looks
            # like the first line of a decorator), and so does a line of a multi-line string
            return ["@icontract.%s(" % deco, "    description=MatStr(%r)" % desc, "    @ MatStr(''),",
                    "    enabled=len(\"\"\"", "@see the documentation\"\"\") > 0,", "    condition=%s%s)" % (lam, extra)]
        if kind == "space-after-at":
            return ["@ icontract.%s(%s, %r%s)" % (deco, lam, desc, extra)]  # blanks after the `@` are legal
        if kind == "parenthesised-decorator":
            # any expression may follow the `@` (PEP 614)
            return ["@(icontract.%s)(%s, %r%s)" % (deco, lam, desc, extra)]
        if kind == "no-description":
            return ["@icontract.%s(%s%s)" % (deco, lam, extra)]
        if kind == "no-description-kw":
            return ["@icontract.%s(" % deco, "    condition=%s%s," % (lam, extra), ")"]
        if kind == "trailing-comma-desc-kw":
            return ["@icontract.%s(%s," % (deco, lam), "    description=%r%s,)" % (desc, extra)]
        raise ValueError(kind)
    return layout


NEIGHBOURS_ABOVE = [
    "@icontract.require(lambda: True)",
    "@icontract.ensure(lambda result: True, 'other')",
    "@foreign",
    "@icontract.require(lambda x: x is not NotImplemented,\n    'two lines')",
    "# a comment between decorators",
]
NEIGHBOURS_BELOW = [
    "@icontract.require(lambda: True)",
    "@icontract.ensure(lambda: True)",
    "@foreign",
    "# comment before def",
    "",
]
PRELUDE = '''import functools
def foreign(fn):
    import inspect
    if inspect.iscoroutinefunction(fn):
        @functools.wraps(fn)
        async def aw(*args, **kwargs):
            return await fn(*args, **kwargs)
        return aw
    @functools.wraps(fn)
    def w(*args, **kwargs):
        return fn(*args, **kwargs)
    return w

'''


@st.composite
def st_layout(draw, role):
    kind = draw(st.sampled_from(LAYOUTS))
    nest = draw(st.sampled_from(["func", "func", "class", "module"]))
    above, below = [], []
    if role != "invariant":
        for _ in range(draw(st.integers(0, 2))):
            above += draw(st.sampled_from(NEIGHBOURS_ABOVE)).split("\n")
        for _ in range(draw(st.integers(0, 2))):
            below += draw(st.sampled_from(NEIGHBOURS_BELOW)).split("\n")
    else:
        for _ in range(draw(st.integers(0, 1))):
            above.append("@icontract.invariant(lambda self: True)")
        for _ in range(draw(st.integers(0, 1))):
            below.append(draw(st.sampled_from(["@icontract.invariant(lambda self: True, 'other inv')", "# comment before class"])))
    return {"kind": kind, "nest": nest, "above": above, "below": below}
