"""Run a stand-alone program of vf/scripts in child interpreters: default mode, -O and -OO (assert statements stripped,
__debug__ False, docstrings dropped). The program prints one JSON object; 'icontract' (file it imported) and '__debug__'
are checked here and removed."""
import json
import os
import subprocess
import sys

HERE = os.path.join(os.path.dirname(os.path.abspath(__file__)), "scripts")
MODES = ([], ["-O"], ["-OO"])


def mode_name(flags):
    return "".join(flags) or "default"


def run_script(name, flags):
    repo = os.path.abspath(os.environ.get("VERIF_REPO", "/repo"))
    env = dict(os.environ, PYTHONDONTWRITEBYTECODE="1")
    env.pop("PYTHONOPTIMIZE", None)
    p = subprocess.run([sys.executable] + list(flags) + [os.path.join(HERE, name), repo], capture_output=True, text=True, timeout=300,
                       env=env)
    try:
        got = json.loads(p.stdout)
    except ValueError:
        raise RuntimeError("%s did not print JSON (mode %s): %s %s" % (name, mode_name(flags), p.stdout[-300:], p.stderr[-600:]))
    if os.path.dirname(os.path.dirname(got.pop("icontract"))) != repo or got.pop("__debug__") != (not flags):
        raise RuntimeError("%s ran with the wrong library or mode" % name)
    return got


def expected(name):
    return json.load(open(os.path.join(HERE, name.replace(".py", ".expected.json"))))
