"""Pure helpers imported by rendered condition modules (exprgen). Deterministic reprs, no addresses."""

PROBES = []  # oracle B: ids of probes evaluated, in order


def p(i, v):
    PROBES.append(i)
    return v


def ident(v):
    return v


def add(*xs):
    return sum(xs)


def kw(a=0, b=0):
    return a * 10 + b


def tag(v=None, w=0):
    """Tolerates any object as ``v`` (a callee that must not be run with a stand-in for an unknown value)."""
    return (1 if v is None else 2 if isinstance(v, int) else 3) + 10 * (w if isinstance(w, int) else 7)


def first(xs, default=0):
    return xs[0] if xs else default


class Node:
    """Small object with deterministic repr; child may be None."""

    def __init__(self, n=0, items=(), child=None, name="nd"):
        self.n = n
        self.items = list(items)
        self.child = child
        self.name = name

    def get(self, k):
        return self.n + k

    def has(self, k):
        return k in self.items

    def __repr__(self):
        return "Node(n=%r, items=%r, child=%r)" % (self.n, self.items, self.child)


class Mat:
    """2x2 'matrix' indexable by a tuple of ints/slices (for ExtSlice-like subscripts)."""

    def __init__(self, rows):
        self.rows = [list(r) for r in rows]

    def __getitem__(self, key):
        if isinstance(key, tuple):
            r, c = key
            rows = self.rows[r]
            if isinstance(r, slice):
                return [row[c] for row in rows]
            return rows[c]
        return self.rows[key]

    def __matmul__(self, other):
        a, b = self.rows, other.rows
        return Mat([[sum(a[i][k] * b[k][j] for k in range(2)) for j in range(2)] for i in range(2)])

    def __repr__(self):
        return "Mat(%r)" % (self.rows,)


class Truth:
    """Result of Q's rich comparisons: truthy or falsy, but never the singletons True/False (like numpy.bool_)."""

    def __init__(self, value):
        self.value = bool(value)

    def __bool__(self):
        return self.value

    def __repr__(self):
        return "Truth(%r)" % self.value


class Q:
    """Number-like object whose comparisons return Truth objects."""

    def __init__(self, v):
        self.v = v

    def __lt__(self, other):
        return Truth(self.v < other.v)

    def __le__(self, other):
        return Truth(self.v <= other.v)

    def __gt__(self, other):
        return Truth(self.v > other.v)

    def __ge__(self, other):
        return Truth(self.v >= other.v)

    def __eq__(self, other):
        # element-wise like a numpy array: against anything that is not a Q the answer has no truth value
        if isinstance(other, Q):
            return Truth(self.v == other.v)
        return Ambiguous()

    def __ne__(self, other):
        if isinstance(other, Q):
            return Truth(self.v != other.v)
        return Ambiguous()

    __hash__ = None

    def __repr__(self):
        return "Q(%r)" % self.v


class Ambiguous:
    """What an array-like returns for == against a foreign object: using it as a truth value is an error."""

    def __bool__(self):
        raise ValueError("The truth value of an element-wise comparison is ambiguous")

    def __repr__(self):
        return "Ambiguous()"


def mkq(v):
    return Q(v)


class MatStr(str):
    """A string with a matrix-multiplication operator (so that a continuation line can start with `@`)."""

    def __matmul__(self, other):
        return str(self) + str(other)
