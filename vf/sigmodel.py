"""Signatures and call shapes (DESIGN 3.2). Everything here is JSON-able and constructed to be bindable."""
import itertools

PO_NAMES = ["a", "b", "p3"]
PK_NAMES = ["c", "d", "e", "p4"]
KO_NAMES = ["k", "m", "k3"]
XKW_NAMES = ["z1", "z2"]
VA_NAME = "args"
VK_NAME = "kwargs"


class Obj:
    """Labelled sentinel: every argument, default, result is a distinct object; compared by identity."""

    __slots__ = ("label",)

    def __init__(self, label):
        self.label = label

    def __repr__(self):
        return "<%s>" % self.label


def sig_params(sig):
    """Named non-variadic parameter names in order."""
    return list(sig["po"]) + list(sig["pk"]) + list(sig["ko"])


def render_params(sig, default_expr=lambda name: "D_%s" % name):
    parts = []
    dflt = set(sig["dflt"])
    for n in sig["po"]:
        parts.append(n + ("=" + default_expr(n) if n in dflt else ""))
    if sig["po"]:
        parts.append("/")
    for n in sig["pk"]:
        parts.append(n + ("=" + default_expr(n) if n in dflt else ""))
    if sig["va"]:
        parts.append("*" + VA_NAME)
    elif sig["ko"]:
        parts.append("*")
    for n in sig["ko"]:
        parts.append(n + ("=" + default_expr(n) if n in dflt else ""))
    if sig["vk"]:
        parts.append("**" + VK_NAME)
    return ", ".join(parts)


def enumerate_sigs(max_po=2, max_pk=3, max_ko=2):
    for npo in range(max_po + 1):
        for npk in range(max_pk + 1):
            for va in (False, True):
                for nko in range(max_ko + 1):
                    for vk in (False, True):
                        po, pk, ko = PO_NAMES[:npo], PK_NAMES[:npk], KO_NAMES[:nko]
                        pos = po + pk
                        for nd in range(len(pos) + 1):
                            pd = pos[len(pos) - nd:]
                            for r in range(nko + 1):
                                for kd in itertools.combinations(ko, r):
                                    yield {"po": po, "pk": pk, "va": va, "ko": ko, "vk": vk,
                                           "dflt": list(pd) + list(kd)}


def enumerate_shapes(sig, max_surplus=2, xkw_pool=None):
    po, pk, ko = sig["po"], sig["pk"], sig["ko"]
    dflt = set(sig["dflt"])
    pos = po + pk
    max_n = len(pos) + (max_surplus if sig["va"] else 0)
    if xkw_pool is None:
        xkw_pool = (XKW_NAMES[:2] + list(po)) if sig["vk"] else []
    for npos in range(max_n + 1):
        # positional-only params that are not covered positionally must have defaults
        if any(n not in dflt for n in po[npos:]):
            continue
        rest_pk = [n for n in pos[npos:] if n in pk]
        # each remaining pk: by keyword, or omitted when it has a default
        opts = []
        for n in rest_pk:
            opts.append((True, False) if n in dflt else (True,))
        for n in ko:
            opts.append((True, False) if n in dflt else (True,))
        names = rest_pk + list(ko)
        for choice in itertools.product(*opts):
            kw = [n for n, c in zip(names, choice) if c]
            for r in range(len(xkw_pool) + 1):
                for x in itertools.combinations(xkw_pool, r):
                    yield {"npos": npos, "kw": kw, "xkw": list(x)}


def make_call(sig, shape):
    """Return (args, kwargs) made of fresh labelled sentinels."""
    args = tuple(Obj("pos%d" % i) for i in range(shape["npos"]))
    kwargs = {}
    for n in shape["kw"]:
        kwargs[n] = Obj("kw_" + n)
    for n in shape["xkw"]:
        kwargs[n] = Obj("xkw_" + n)
    return args, kwargs


def shape_features(sig, shape):
    pos = sig["po"] + sig["pk"]
    feats = []
    supplied = set(pos[: shape["npos"]]) | set(shape["kw"])
    if any(n in sig["dflt"] and n not in supplied for n in sig_params(sig)):
        feats.append("default_used")
    if sig["ko"]:
        feats.append("kwonly")
    if sig["po"]:
        feats.append("posonly")
    if shape["npos"] > len(pos):
        feats.append("surplus_pos")
    if shape["xkw"]:
        feats.append("surplus_kw")
    if any(n in sig["po"] for n in shape["xkw"]):
        feats.append("xkw_collides_posonly")
    if shape["npos"] > len(pos) and sig["ko"]:
        feats.append("surplus_pos_with_kwonly")
    return feats


# ---- Hypothesis strategies --------------------------------------------------

def st_sig(max_po=2, max_pk=3, max_ko=2):
    from hypothesis import strategies as st

    @st.composite
    def _sig(draw):
        npo = draw(st.integers(0, max_po))
        npk = draw(st.integers(0, max_pk))
        nko = draw(st.integers(0, max_ko))
        po, pk, ko = PO_NAMES[:npo], PK_NAMES[:npk], KO_NAMES[:nko]
        pos = po + pk
        nd = draw(st.integers(0, len(pos)))
        kd = [n for n in ko if draw(st.booleans())]
        return {"po": po, "pk": pk, "va": draw(st.booleans()), "ko": ko, "vk": draw(st.booleans()),
                "dflt": pos[len(pos) - nd:] + kd}

    return _sig()


def st_shape(sig, max_surplus=2):
    from hypothesis import strategies as st

    @st.composite
    def _shape(draw):
        po, pk, ko = sig["po"], sig["pk"], sig["ko"]
        dflt = set(sig["dflt"])
        pos = po + pk
        lo = 0
        for i, n in enumerate(po):
            if n not in dflt:
                lo = i + 1
        hi = len(pos) + (max_surplus if sig["va"] else 0)
        npos = draw(st.integers(lo, hi))
        kw = []
        for n in [n for n in pos[npos:] if n in pk] + list(ko):
            if n not in dflt or draw(st.booleans()):
                kw.append(n)
        xkw = []
        if sig["vk"]:
            for n in XKW_NAMES[:2] + list(po):
                if draw(st.integers(0, 2)) == 0:
                    xkw.append(n)
        return {"npos": npos, "kw": kw, "xkw": xkw}

    return _shape()
