"""./check <ID> [--tier quick|thorough] [--seed N] [--replay PATH] — see DESIGN.md section 1."""
import argparse
import importlib
import json
import os
import sys

from vf import core


def load_module(prop):
    return importlib.import_module("vf.props.%s" % prop.lower())


def classify(ctx, mod, active):
    """Split collected failures into known findings and violations. Returns (violations, known_ids)."""
    violations = []
    known_ids = {}
    opens = {f["id"]: f for f in core.open_findings(ctx.prop)}
    matchers = getattr(mod, "KNOWN", {})
    for bucket, failure in sorted(ctx.failures.items()):
        matched = None
        for fid in opens:
            pred = matchers.get(fid)
            if pred is not None and pred(bucket, failure.case):
                matched = fid
                break
        if matched is not None:
            known_ids[matched] = known_ids.get(matched, 0) + ctx.failure_counts.get(bucket, 1)
        else:
            violations.append(failure)
    return violations, known_ids


def main(argv=None):
    ap = argparse.ArgumentParser()
    ap.add_argument("prop")
    ap.add_argument("--tier", default=os.environ.get("VERIF_TIER") or "quick", choices=["quick", "thorough"])
    ap.add_argument("--seed", type=int, default=None)
    ap.add_argument("--replay", default=None)
    ap.add_argument("--shard", default=None)
    ap.add_argument("--dump", default=None)
    ap.add_argument("--no-evidence", action="store_true")
    args = ap.parse_args(argv)
    seed = args.seed if args.seed is not None else int(os.environ.get("VERIF_SEED") or "1")
    prop = args.prop.upper()

    try:
        core.setup_repo_path()
        mod = load_module(prop)
        ctx = core.Ctx(prop, args.tier, seed, level=getattr(mod, "LEVEL", "exploration"))
        ctx.rule = getattr(mod, "RULE", "")
        ctx.assumptions = list(getattr(mod, "ASSUMPTIONS", []))

        if args.replay:
            with open(args.replay) as fh:
                body = json.load(fh)
            mod.replay(ctx, body["case"])
            violations, known = classify(ctx, mod, set())
            for fid, n in known.items():
                print("KNOWN-FINDING: property=%s %s (replayed case matches an open known finding)" % (prop, fid))
            for f in violations:
                print("VIOLATION property=%s replay=%s" % (prop, os.path.abspath(args.replay)))
                print("  bucket: %s\n  %s" % (f.bucket, f.message.replace("\n", "\n  ")))
            if not violations and not known:
                print("replay did not reproduce a failure")
            return 1 if violations else 0

        if args.shard:
            k, n = [int(x) for x in args.shard.split("/")]
            ctx.active_known = probe_known(mod, prop, quiet=True)
            mod.run(ctx, args.tier, core.shard_seed(seed, k), k, n)
            with open(args.dump, "w") as fh:
                json.dump(ctx.dump(), fh, default=str)
            return 0

        # ---- main process ----
        active = probe_known(mod, prop, quiet=False, ctx=ctx)
        ctx.active_known = active
        nshards = getattr(mod, "SHARDS", {}).get(args.tier, 1)
        if nshards > 1:
            if hasattr(mod, "run_once"):
                mod.run_once(ctx, args.tier, seed)
            for d in core.run_shards(prop, args.tier, seed, nshards):
                ctx.merge(d)
        else:
            if hasattr(mod, "run_once"):
                mod.run_once(ctx, args.tier, seed)
            mod.run(ctx, args.tier, core.shard_seed(seed, 0) if args.tier == "thorough" else seed, 0, 1)
        fz = getattr(mod, "FUZZ", {}).get(args.tier)
        if fz:
            if core.fuzz_available():
                for d in core.run_fuzz(prop, seed, fz[0], fz[1]):
                    ctx.merge(d)
                ctx.extra["atheris_campaigns"] = fz[0]
            else:
                ctx.notes.append("coverage-guided stage skipped: atheris is not installed under .deps (setup.sh installs it)")

        violations, known = classify(ctx, mod, active)
        for fid, n in known.items():
            ctx.known(fid, n)
        opens = {f["id"]: f for f in core.open_findings(prop)}
        for fid in sorted(set(active) | set(known)):
            f = opens.get(fid, {})
            print("KNOWN-FINDING: property=%s %s %s" % (prop, fid, f.get("what_fails", "")))
        paths = []
        for f in violations:
            p = core.write_replay(prop, f)
            paths.append(p)
            print("VIOLATION property=%s replay=%s" % (prop, p))
            print("  bucket: %s (seen %d x)\n  %s" % (f.bucket, ctx.failure_counts.get(f.bucket, 1),
                                                     f.message.replace("\n", "\n  ")))
        if not args.no_evidence:
            core.write_evidence(ctx, len(violations))
        print("%s tier=%s seed=%d evaluations=%d distinct_nontrivial=%d violations=%d known=%s wall=%.1fs" % (
            prop, args.tier, seed, ctx.evaluations, len(ctx.nontrivial), len(violations),
            sorted(set(active) | set(known)), __import__("time").time() - ctx.t0))
        return 1 if violations else 0
    except core.HarnessError as e:
        print("HARNESS-ERROR %s: %s" % (prop, e), file=sys.stderr)
        return 2
    except Exception as e:  # noqa
        print("HARNESS-ERROR %s (unexpected): %s" % (prop, core.fmt_exc(e)), file=sys.stderr)
        return 2


def probe_known(mod, prop, quiet, ctx=None):
    """Run the directed reproducer of every open known finding; return the ids that still reproduce.

    Fixed findings' reproducers are run as ordinary regression cases into ``ctx`` (main process only)."""
    active = set()
    matchers = getattr(mod, "KNOWN", {})
    for f in core.open_findings(prop):
        if "repro" not in f or f["id"] not in matchers:
            continue
        tmp = core.Ctx(prop, "quick", 0)
        mod.replay(tmp, f["repro"])
        hit = any(matchers[f["id"]](b, fl.case) for b, fl in tmp.failures.items())
        if hit:
            active.add(f["id"])
        elif not quiet:
            print("NOTE: open known finding %s no longer reproduces on this tree; its exclusion is lifted" % f["id"])
        if ctx is not None:
            # failures of the reproducer that do NOT match the finding are reported normally
            for b, fl in tmp.failures.items():
                if not matchers[f["id"]](b, fl.case):
                    ctx.fail(b, fl.case, fl.message)
    if ctx is not None:
        for f in core.fixed_findings(prop):
            if "repro" in f:
                mod.replay(ctx, f["repro"])
                ctx.count("regression_cases_of_fixed_findings")
    return active


if __name__ == "__main__":
    sys.exit(main())
