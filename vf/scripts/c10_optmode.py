"""Stand-alone program run by C10 in a child interpreter, once normally and once with -O (assert statements stripped,
``__debug__`` False): contracts forced with ``enabled=True`` that re-enter their own callable. Prints one JSON object
{scenario: [outcome, events]}. The repository under test comes first on sys.path (argv[1])."""
import json
import sys

sys.path.insert(0, sys.argv[1])
sys.setrecursionlimit(400)

import asyncio  # noqa: E402

import icontract  # noqa: E402

log = []
results = {"__debug__": __debug__, "icontract": icontract.__file__}


def run(label, thunk):
    del log[:]
    try:
        out = ["ret", thunk()]
    except RecursionError:
        out = ["RecursionError"]
    except icontract.ViolationError:
        out = ["violation"]
    except BaseException as e:  # noqa
        out = [type(e).__name__, str(e)[:80]]
    results[label] = [out, list(log) if len(log) < 200 else ["... %d events" % len(log)]]


T = {"post_f": True}


def pre_f(x):
    log.append("pre:f")
    f(x)
    return True


def cap_f(x):
    log.append("cap:f")
    return f(x)


def post_f(x, result, OLD):
    log.append("post:f")
    f(x)
    g(x)
    return T["post_f"]


def err_f(x):
    log.append("err:f")
    f(x)
    return KeyError("from the factory")


@icontract.require(pre_f, enabled=True)
@icontract.snapshot(cap_f, name="old", enabled=True)
@icontract.ensure(post_f, error=err_f, enabled=True)
def f(x):
    log.append("body:f")
    if x > 0:
        f(x - 1)  # recursion by the body: a call like any other
    return x


def post_g(x, result):
    log.append("post:g")
    f(0)
    g(x)
    return True


@icontract.ensure(post_g, enabled=True)
def g(x):
    log.append("body:g")
    return x


run("sync/f(0)", lambda: f(0))
run("sync/f(1)", lambda: f(1))
run("sync/g(0)", lambda: g(0))
T["post_f"] = False
run("sync/f(0) violated", lambda: f(0))
T["post_f"] = True


async def apre(x):
    log.append("pre:af")
    await af(x)
    return True


async def apost(x, result):
    log.append("post:af")
    await af(x)
    await ag(x)
    return True


@icontract.require(apre, enabled=True)
@icontract.ensure(apost, enabled=True)
async def af(x):
    log.append("body:af")
    if x > 0:
        await af(x - 1)
    return x


async def apost_g(x, result):
    log.append("post:ag")
    await af(0)
    return True


@icontract.ensure(apost_g, enabled=True)
async def ag(x):
    log.append("body:ag")
    return x


run("async/af(0)", lambda: asyncio.run(af(0)))
run("async/af(1)", lambda: asyncio.run(af(1)))
run("async/ag(0)", lambda: asyncio.run(ag(0)))


def inv(self):
    log.append("inv")
    self.get()
    return True


def post_m(self, result):
    log.append("post:m")
    self.m()
    return True


@icontract.invariant(inv, enabled=True)
class K:
    def __init__(self):
        log.append("init")
        self.get()

    def get(self):
        log.append("body:get")
        return 1

    @icontract.ensure(post_m, enabled=True)
    def m(self):
        log.append("body:m")
        other.get() if self is not other else None
        return 2


other = K()
run("class/K()", lambda: K().get())
k = K()
run("class/m", lambda: k.m())

print(json.dumps(results, sort_keys=True))
