"""Stand-alone program run by C11 in child interpreters (default, -O, -OO): contracts forced with enabled=True; after every
way a checked call can end (return, violation, exception from the body / a condition, cancellation of a coroutine) the SAME
callable / object is probed: the probe must be checked as in a fresh process. Prints {scenario: [outcome, events of the
probe]}. argv[1] = repository under test."""
import json
import sys

sys.path.insert(0, sys.argv[1])

import asyncio  # noqa: E402

import icontract  # noqa: E402

log = []
results = {"__debug__": __debug__, "icontract": icontract.__file__}
T = {"inv": True, "pre": True, "post": True, "raise_in": None}


def outcome(thunk):
    try:
        return ["ret", thunk()]
    except icontract.ViolationError:
        return ["violation"]
    except BaseException as e:  # noqa
        return [type(e).__name__]


def cond(tag):
    def c(**kw):
        log.append(tag)
        if T["raise_in"] == tag:
            raise KeyError("raised by " + tag)
        return T[tag]
    return c


def inv(self):
    return cond("inv")()


def pre(x):
    return cond("pre")()


def post(result):
    return cond("post")()


@icontract.invariant(inv, enabled=True)
class K:
    def __init__(self):
        log.append("init")

    @icontract.require(pre, enabled=True)
    @icontract.ensure(post, enabled=True)
    def m(self, x):
        log.append("body:m")
        if x == "boom":
            raise KeyboardInterrupt()
        return x

    async def am(self, x):
        log.append("body:am")
        await asyncio.sleep(0)
        return x


@icontract.require(pre, enabled=True)
@icontract.ensure(post, enabled=True)
def f(x):
    log.append("body:f")
    if x == "boom":
        raise KeyboardInterrupt()
    return x


def probe_obj(k):
    T.update(inv=True, pre=True, post=True, raise_in=None)
    del log[:]
    out = outcome(lambda: k.m(1))
    ev = list(log)
    # and the probe with a broken invariant must be noticed
    T["inv"] = False
    del log[:]
    out2 = outcome(lambda: k.m(1))
    T["inv"] = True
    return [out, ev, out2, list(log)]


def probe_fun():
    T.update(inv=True, pre=True, post=True, raise_in=None)
    del log[:]
    out = outcome(lambda: f(1))
    ev = list(log)
    T["post"] = False
    del log[:]
    out2 = outcome(lambda: f(1))
    T["post"] = True
    return [out, ev, out2, list(log)]


FAULTS = [("returns", {}, 1), ("pre-violated", {"pre": False}, 1), ("post-violated", {"post": False}, 1),
          ("inv-violated", {"inv": False}, 1), ("pre-raises", {"raise_in": "pre"}, 1), ("post-raises", {"raise_in": "post"}, 1),
          ("inv-raises", {"raise_in": "inv"}, 1), ("body-raises-BaseException", {}, "boom")]
for name, upd, arg in FAULTS:
    k = K()
    T.update(inv=True, pre=True, post=True, raise_in=None)
    T.update(upd)
    first = outcome(lambda: k.m(arg))
    results["object/" + name] = [first] + probe_obj(k)
    if not name.startswith("inv"):
        T.update(inv=True, pre=True, post=True, raise_in=None)
        T.update(upd)
        first = outcome(lambda: f(arg))
        results["function/" + name] = [first] + probe_fun()

# constructor ending in a violation / an exception, then a fresh object
for name, upd in (("ctor-inv-violated", {"inv": False}), ("ctor-inv-raises", {"raise_in": "inv"})):
    T.update(inv=True, pre=True, post=True, raise_in=None)
    T.update(upd)
    first = outcome(lambda: K() and None)
    results["object/" + name] = [first] + probe_obj(K.__new__(K))

# a coroutine method closed at its suspension point, then the probe
k = K()
T.update(inv=True, pre=True, post=True, raise_in=None)
co = k.am(1)
co.send(None)
co.close()
results["object/async-closed"] = [["closed"]] + probe_obj(k)

print(json.dumps(results, sort_keys=True))
