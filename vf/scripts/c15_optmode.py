"""Stand-alone program run by C15 in child interpreters (default, -O, -OO): explicitly enabled contracts (enabled=True) are
enforced identically in every mode; contracts left at the default follow __debug__; enabled=False is absent everywhere.
Two copies of the same module: one from this file (source available), one compiled from a string (no source for inspect,
as in a byte-code-only deployment). Prints {scenario: [outcome, bodies run]}. argv[1] = repository under test."""
import json
import sys

sys.path.insert(0, sys.argv[1])

import icontract  # noqa: E402

results = {"__debug__": __debug__, "icontract": icontract.__file__}

SOURCE = '''
import icontract

RAN = []


def positive(x):
    return x > 0


@icontract.require(lambda x: x > 0, enabled=True)
def pre_lambda(x):
    RAN.append("pre_lambda")
    return x


@icontract.require(positive, "x must be positive", enabled=True)
def pre_def(x):
    RAN.append("pre_def")
    return x


@icontract.ensure(lambda result: result > 0, "result must be positive", enabled=True)
def post_lambda(x):
    RAN.append("post_lambda")
    return x


@icontract.ensure(lambda result: result > 0, error=ValueError, enabled=True)
def post_error_class(x):
    RAN.append("post_error_class")
    return x


@icontract.invariant(lambda self: self.x > 0, enabled=True)
class Inv:
    def __init__(self, x):
        RAN.append("Inv")
        self.x = x


@icontract.require(lambda x: x > 0)
def pre_default(x):
    RAN.append("pre_default")
    return x


@icontract.require(lambda x: x > 0, enabled=False)
def pre_disabled(x):
    RAN.append("pre_disabled")
    return x
'''


def probe(ns, prefix):
    for name in ("pre_lambda", "pre_def", "post_lambda", "post_error_class", "Inv", "pre_default", "pre_disabled"):
        for arg in (1, -1):
            del ns["RAN"][:]
            try:
                r = ns[name](arg)
                out = ["ret", r if isinstance(r, int) else type(r).__name__]
            except BaseException as e:  # noqa
                out = [type(e).__name__]
            results["%s/%s(%d)" % (prefix, name, arg)] = [out, list(ns["RAN"])]


sourceless = {}
exec(compile(SOURCE, "<no source>", "exec"), sourceless)
probe(sourceless, "sourceless")

import os  # noqa: E402
import tempfile  # noqa: E402

d = tempfile.mkdtemp(prefix="vf_c15_")
path = os.path.join(d, "vf_c15_mod.py")
with open(path, "w") as fh:
    fh.write(SOURCE)
sourced = {"__name__": "vf_c15_mod", "__file__": path}
exec(compile(SOURCE, path, "exec"), sourced)
probe(sourced, "sourced")
os.remove(path)
os.rmdir(d)

print(json.dumps(results, sort_keys=True))
